"""Which binary configurations each check runs in each tier, and the level texts."""

def S(config, **kw):
    d = {"config": config}
    d.update(kw)
    return d

TECH_SWEEP = "exhaustive bounded enumeration of inputs on the real code vs reference model"

PLAN = {
    "C01": {
        "quick": [S("hook-default"), S("hook-nosimd", tag="two-lookup-bmap", only="bmap"), S("hook-nosimd", tag="two-lookup-step", only="step"),
                  # "the same length code": generated hashes at every boundary of the length-code table (C09's sections, hook injection)
                  S("hook-default", tag="len-codes", check="C09", only="generated")],
        "thorough": [S("hook-default"), S("m3-none", tag="nosimd")],
    },
    "C02": {
        # header distances (checksum, length, Q ratios) have table / double-table / arithmetic variants selected by features:
        # the complete per-byte sweeps run in each of them
        "quick": [S("hook-default"), S("m4-embedded-min", tag="embedded", only="header"), S("m3-none", tag="nosimd", only="header")],
        "thorough": [S("hook-default"), S("m3-none", tag="nosimd"), S("m4-embedded-min", tag="embedded"),
                     S("t-len-table-only", tag="len-table", only="header"), S("t-q-table-only", tag="q-table", only="header"),
                     S("t-q-table-double-only", tag="q-table-double", only="header")],
    },
    "C04": {
        "quick": [S("hook-default"), S("m3-none", tag="tables"), S("m6-static-ssse3", tag="half-tables", only="canonical"), S("m7-static-sse41", tag="quarter-table", only="canonical"),
                  S("m4-embedded-min", tag="min-tables", only="format-values")],
        "thorough": [S("hook-default"), S("m3-none", tag="tables"), S("m4-embedded-min", tag="min")],
    },
    "C05": {
        "quick": [S("hook-default"), S("m3-none", tag="tables"), S("m6-static-ssse3", tag="half-table", only="dev1"), S("m7-static-sse41", tag="quarter-table", only="dev1"),
                  S("m4-embedded-min", tag="min-table", only="dev1"),
                  # the scalar body decoders of the reduced tables exist only when SIMD hex parsing is off
                  S("t-dec-half-nosimdhex", tag="half-nosimd", only="dev1"), S("t-dec-quarter-nosimdhex", tag="quarter-nosimd", only="dev1")],
        "thorough": [S("hook-default"), S("m3-none", tag="tables"), S("m4-embedded-min", tag="min"),
                     S("t-dec-half-nosimdhex", tag="half"), S("t-dec-quarter-nosimdhex", tag="quarter"), S("t-dec-min-simdparse", tag="min-simd")],
    },
    "C06": {
        # "the hex form is exactly these bytes with the header nibble-swapped" also in the builds with reduced encode tables
        "quick": [S("hook-default"), S("m6-static-ssse3", tag="enc-half"), S("m4-embedded-min", tag="enc-min")],
        "thorough": [S("hook-default"), S("m3-none", tag="tables")],
    },
    "C07": {
        "quick": [S("hook-default"), S("m1-default", only="transcript"), S("m2-default-unsafe", only="transcript"), S("m3-none", only="transcript"),
                  S("m4-embedded-min", only="transcript"), S("m5-static-sse2", only="transcript"), S("m6-static-ssse3", only="transcript"),
                  S("m7-static-sse41", only="transcript"), S("m8-static-avx2-unsafe", only="transcript")],
        "thorough": [S("hook-default")] + [S(c, only="transcript") for c in [
                  "m1-default", "m2-default-unsafe", "m3-none", "m4-embedded-min", "m5-static-sse2", "m6-static-ssse3", "m7-static-sse41", "m8-static-avx2-unsafe",
                  "hook-nosimd", "hook-unsafe",
                  "t-dec-half-nosimdhex", "t-dec-quarter-nosimdhex", "t-dec-min-simdparse", "t-enc-half-nosimdhex", "t-enc-min-simdconvert",
                  "t-simd-body-only", "t-simd-agg-only", "t-simd-parse-only", "t-simd-convert-only", "t-len-table-only", "t-q-table-only",
                  "t-q-table-double-only", "t-pearson-double-only", "t-lowmem-buckets-default", "t-unsafe-nosimd", "t-unsafe-static-sse2",
                  "t-unsafe-static-ssse3", "t-unsafe-static-sse41", "t-static-avx2", "t-default-ssse3flags", "t-default-avx2flags", "t-embedded-unsafe",
                  "dbg-default", "dbg-nosimd", "dbg-unsafe"]],
    },
    "C08": {
        # the metric laws are claimed for every dispatchable distance kernel: static SSE2 / SSE4.1 / AVX2 and no-SIMD builds too
        "quick": [S("hook-default"), S("m5-static-sse2", tag="sse2"), S("m7-static-sse41", tag="sse41"), S("m3-none", tag="nosimd"), S("m4-embedded-min", tag="embedded")],
        "thorough": [S("hook-default"), S("m3-none", tag="nosimd"), S("m5-static-sse2", tag="sse2"), S("m6-static-ssse3", tag="ssse3"), S("m7-static-sse41", tag="sse41"),
                     S("m8-static-avx2-unsafe", tag="avx2-unsafe"), S("m4-embedded-min", tag="embedded")],
    },
    "C10": {
        "quick": [S("hook-default")],
        # "too large is never waivable" also for one slice longer than 4 GiB (C11's section; 35 s per variant, so thorough only -
        # on every change the quick tier of C11 runs it)
        "thorough": [S("hook-default"), S("hook-explore", tag="huge-slice", check="C11", only="single-huge-update")],
    },
    "C03": {
        # the chunking paths have an `unsafe`-feature variant of their own (pointer-based tail handling is a typical place)
        "quick": [S("hook-explore"), S("hook-unsafe", tag="unsafe-splits", only="splits"), S("hook-unsafe", tag="unsafe-pieces", only="piece-thresholds")],
        "thorough": [S("hook-explore"), S("m3-none", tag="nosimd")],
    },
    "C11": {
        "quick": [S("hook-explore")],
        "thorough": [S("hook-explore"), S("hookdbg-explore", tag="dbg", only="histories-from")],
    },
    "C12": {
        "quick": [S("hook-default")],
        "thorough": [S("hook-default")],
    },
    "C15": {
        "quick": [S("hook-strict"), S("s-strict-embedded", tag="embedded", only="generated")],
        "thorough": [S("hook-strict"), S("s-strict-nosimd", tag="nosimd"), S("s-strict-dec-half", tag="half"), S("s-strict-dec-quarter", tag="quarter"), S("s-strict-dec-min", tag="min"), S("s-strict-embedded", tag="embedded")],
    },
    "C16": {
        "quick": [S("serde-plain"), S("serde-strict", tag="strict"), S("serde-buffered", tag="buffered"), S("serde-buffered-strict", tag="buffered-strict")],
        "thorough": [S("serde-plain"), S("serde-strict", tag="strict"), S("serde-buffered", tag="buffered"), S("serde-buffered-strict", tag="buffered-strict"), S("serde-unsafe", tag="unsafe")],
    },
    "C17": {
        "quick": [S("hook-default"), S("m2-default-unsafe", tag="children"),
                  # the table-based (no SIMD) parsers in the overflow-checks build
                  S("dbg-nosimd", tag="dbg-nosimd-c05", check="C05", only="dev1"),
                  # a Serializer that changes its is_human_readable() answer, in the serde + unsafe build (str via from_utf8_unchecked)
                  S("serde-unsafe", tag="serde-flip", check="C16", only="flipping"),
                  # concurrent first calls under Miri's data-race detector: 10 groups, one interpreter process each
                  # ... plus a 40-item selection of the interpreter work list (error paths of the parsers, one of each operation kind)
                  S("miri-plain-unsafe", tag="miri-race", miri={"depth": 1, "shards": 16, "kinds": "race-quick,@quick"}),
                  S("hookdbg-explore", tag="dbg-c11", check="C11", only="histories-from"),
                  S("hookdbg-explore", tag="dbg-c03", check="C03", only="histories"),
                  S("hookdbg-explore", tag="dbg-c01", check="C01", only="prefix-lengths"),
                  S("hookdbg-explore", tag="dbg-c01q", check="C01", only="qratio-arith"),
                  S("hookdbg-explore", tag="dbg-c05", check="C05", only="dev1"),
                  S("hookdbg-explore", tag="dbg-c06", check="C06"),
                  S("hookdbg-explore", tag="dbg-c12", check="C12", only="scripts-small"),
                  S("asan-default", tag="asan-c02", check="C02", only="body-fill", env={"ASAN_OPTIONS": "detect_leaks=0"}),
                  S("asan-default", tag="asan-c07", check="C07", only="agg-backends", env={"ASAN_OPTIONS": "detect_leaks=0"}),
                  S("asan-default", tag="asan-c14", check="C14", env={"ASAN_OPTIONS": "detect_leaks=0"}),
                  # unoptimised (opt-level 0, debug assertions, overflow checks) ASan build: loads the optimiser would drop stay visible
                  S("asan0-default", tag="asan0-c02", check="C02", only="body-fill", env={"ASAN_OPTIONS": "detect_leaks=0"}),
                  S("asan0-default", tag="asan0-c07", check="C07", only="agg-backends-lanes", env={"ASAN_OPTIONS": "detect_leaks=0"}),
                  S("asan0-default", tag="asan0-c07s", check="C07", only="agg-backends-shapes-48", env={"ASAN_OPTIONS": "detect_leaks=0"})],
        "thorough": [
                  # E6: the fixed work list under the Miri interpreter (UB monitor), three builds with feature 'unsafe'
                  S("miri-hook-avx2-unsafe", tag="miri-hook", miri={"depth": 1, "shards": 16}),
                  S("miri-plain-unsafe", tag="miri-plain", miri={"depth": 1, "shards": 16}),
                  S("miri-plain-nosimd-unsafe", tag="miri-nosimd", miri={"depth": 1, "shards": 16}),
                  # concurrent first calls, one interpreter process per item (Miri's data-race detector as the monitor)
                  S("miri-plain-unsafe", tag="miri-race", miri={"depth": 1, "shards": 40, "kinds": "race,race-quick"}),
                  S("miri-hook-avx2-unsafe", tag="miri-race-hook", miri={"depth": 1, "shards": 40, "kinds": "race,race-quick"}),
                  S("miri-plain-serde-unsafe", tag="miri-serde", miri={"depth": 1, "shards": 16, "kinds": "serde"}),
                  S("miri-plain-serde-strict-unsafe", tag="miri-serde-strict", miri={"depth": 1, "shards": 16, "kinds": "serde"}),
                  S("asan0-default", tag="asan0-c07s", check="C07", only="agg-backends-shapes", env={"ASAN_OPTIONS": "detect_leaks=0"}),
                  S("asan0-default", tag="asan0-c02", check="C02", only="body-fill", env={"ASAN_OPTIONS": "detect_leaks=0"}),
                  S("asan0-default", tag="asan0-c07", check="C07", only="agg-backends-lanes", env={"ASAN_OPTIONS": "detect_leaks=0"}),
                  S("asan0-default", tag="asan0-c14", check="C14", env={"ASAN_OPTIONS": "detect_leaks=0"}),
                  S("asan0-default", tag="asan0-c06", check="C06", only="slice-lengths", env={"ASAN_OPTIONS": "detect_leaks=0"}),S("hook-default"), S("hook-unsafe", tag="hook-unsafe"),
                  S("asan-default", tag="asan-c02", check="C02", only="body-w1", env={"ASAN_OPTIONS": "detect_leaks=0"}),
                  S("asan-default", tag="asan-c02w2", check="C02", only="body-w2", env={"ASAN_OPTIONS": "detect_leaks=0"}),
                  S("asan-default", tag="asan-c02f", check="C02", only="body-fill", env={"ASAN_OPTIONS": "detect_leaks=0"}),
                  S("asan-default", tag="asan-c07", check="C07", only="agg-backends", env={"ASAN_OPTIONS": "detect_leaks=0"}),
                  S("asan-default", tag="asan-c04", check="C04", env={"ASAN_OPTIONS": "detect_leaks=0"}),
                  S("asan-default", tag="asan-c05", check="C05", only="dev1", env={"ASAN_OPTIONS": "detect_leaks=0"}),
                  S("asan-default", tag="asan-c06", check="C06", env={"ASAN_OPTIONS": "detect_leaks=0"}),
                  S("asan-default", tag="asan-c14", check="C14", env={"ASAN_OPTIONS": "detect_leaks=0"}),
                  S("asan-default", tag="asan-c12", check="C12", only="scripts-small", env={"ASAN_OPTIONS": "detect_leaks=0"}),
                  S("asan-nosimd", tag="asan-nosimd-c14", check="C14", env={"ASAN_OPTIONS": "detect_leaks=0"}), S("m2-default-unsafe", tag="children"), S("m8-static-avx2-unsafe", tag="children-avx2"),
                  S("dbg-unsafe", tag="children-dbg"),
                  S("hookdbg-explore", tag="dbg-c11", check="C11"),
                  S("hookdbg-explore", tag="dbg-c03", check="C03"),
                  S("hookdbg-explore", tag="dbg-c01", check="C01"),
                  S("hookdbg-explore", tag="dbg-c02", check="C02", only="body-w1"),
                  S("hookdbg-explore", tag="dbg-c04", check="C04"),
                  S("hookdbg-explore", tag="dbg-c05", check="C05"),
                  S("hookdbg-explore", tag="dbg-c06", check="C06"),
                  S("hookdbg-explore", tag="dbg-c09", check="C09", only="generated"),
                  S("hookdbg-explore", tag="dbg-c10", check="C10", only="lattice"),
                  S("hookdbg-explore", tag="dbg-c12", check="C12"),
                  S("hookdbg-explore", tag="dbg-c14", check="C14")],
    },
    "C18": {
        "quick": [S("hook-default"), S("m3-none", tag="nosimd"), S("m5-static-sse2", tag="static")],
        "thorough": [S("hook-default"), S("m1-default", tag="plain"), S("m3-none", tag="nosimd"), S("m4-embedded-min", tag="embedded"), S("m5-static-sse2", tag="static"),
                     S("m8-static-avx2-unsafe", tag="avx2"), S("s-strict-default", tag="strict"), S("dbg-default", tag="dbg")],
    },
    "C13": {
        "quick": [S("hook-default")],
        "thorough": [S("hook-default"), S("m3-none", tag="tables")],
    },
    "C14": {
        "quick": [S("hook-default"), S("m3-none", tag="tables")],
        "thorough": [S("hook-default"), S("m3-none", tag="tables"), S("m4-embedded-min", tag="min")],
    },
    "C09": {
        "quick": [S("hook-default")],
        # "no code for lengths above MAX" also for one slice longer than 4 GiB: C11's section, re-run here (35 s per variant, so thorough only;
        # on every change the quick tier of C11 runs it)
        "thorough": [S("hook-default"), S("m3-none", tag="nosimd"), S("hook-explore", tag="huge-slice", check="C11", only="single-huge-update")],
    },
}

# C17 re-runs other properties' enumerations under monitor builds (overflow checks, ASan); the operation-sequence
# sections (E7) are about results, run in those properties' own checks, and are far too slow unoptimised: left out there.
for _tier in ("quick", "thorough"):
    for _s in PLAN["C17"][_tier]:
        if _s.get("check"):
            _s.setdefault("env", {})
            _s["env"] = dict(_s["env"], VERIF_SKIP="sequences")

def _lt(technique, text, ref, note, assumptions):
    return {"technique": technique, "text": text, "design_ref": ref, "note": note, "assumptions": assumptions}

REF_TRUST = "reference model (harness/src/refmodel: pinned Pearson and length tables, byte-at-a-time generator, full-sort quartiles, naive distances) is bound to the official algorithm by the known-answer self-test that runs before every check"

LEVEL_TEXT = {
    "C01": _lt(
        "exhaustive bounded enumeration on the real generator vs reference model: complete 2^32 domains of both bucket mappings, complete one-step relation per salted triplet from injected states, all short inputs, all prefix lengths, all quartile compositions over boundary value alphabets",
        "Model checking of a sequential library: the claim over all inputs is decomposed into finite components that are each enumerated completely on the real code (both bucket-mapping functions on all 2^32 arguments; the one-byte step relation from injected states; finalize on every composition of bucket classes over value alphabets that include counts >= 2^24, >= 2^31 and 2^32-1; the Q-ratio arithmetic on a boundary alphabet), plus every whole input up to a length bound and every prefix length of five streams, all under all 32 option settings, each compared with an independent reference.",
        "DESIGN.md section 2, C01",
        "Trusted: " + REF_TRUST + "; the state-injection hook (round-trip validated against really fed streams in the thorough tier). Not covered: an induction over arbitrary bucket vectors beyond the class/alphabet abstraction.",
        ["reference model equals the official TLSH algorithm on all inputs (bound by KATs)", "a triplet's bucket index depends only on the three bytes it reads (checked on a filler alphabet)", "finalize depends on the bucket array only through order statistics and comparisons with them"]),
    "C02": _lt(
        "exhaustive bounded enumeration of hash pairs on every compiled distance backend vs naive reference distance",
        "Every compiled body-distance backend (dispatch, pseudo-SIMD 32/64, SSE2, SSE4.1, AVX2) is driven directly on all pairs that deviate from 18 backgrounds in one byte (all 2^16 values, every position), in one straddling nibble window, in whole-body fills, and (thorough) in two adjacent bytes (all 2^32) at every structural boundary; header parts are swept over their complete 2^16 domains through the public API; the composition is checked on a product alphabet.",
        "DESIGN.md section 2, C02",
        "Trusted: naive reference distance; " + REF_TRUST + ". Not covered: all 2^512 x 2^512 body pairs (coverage is all deviations of <= 1 byte (quick) / <= 2 adjacent bytes (thorough) from 18 backgrounds).",
        ["a bit-sliced kernel that is right on all <=2-byte deviations from varied backgrounds has no cross-lane defect"]),
    "C04": _lt(
        "exhaustive bounded enumeration of hash values and of one-deviation strings through every format/parse entry point vs reference hex codec",
        "All hash values that deviate from 4 backgrounds in one byte (every position, all 256 values) plus all 2^16 values of every adjacent header byte pair are formatted by every formatter and parsed back by every entry point; every string within one deviation of 6 base strings that is accepted must re-format to its own canonical uppercase form.",
        "DESIGN.md section 2, C04",
        "Trusted: reference hex codec. Encoders/decoders are byte-local (per two digits), so one-byte deviations cover them per position; table variants are covered by the listed configurations and by C07.",
        ["codec is byte-local (verified by reading; cross-byte effects are covered by header windows)"]),
    "C05": _lt(
        "deviation-bounded exhaustive enumeration of byte strings (0,1,2 deviations from well-formed bases, all lengths) through every parse entry point under catch_unwind vs reference parser returning the set of applicable errors",
        "Every string with at most one deviation (any position, all 256 byte values incl. non-UTF-8) and at most two deviations (7-class alphabet; thorough: first deviation over all 256 values) from six well-formed bases, and every length 0..=2*LEN with several prefixes, is parsed in all three prefix modes through all entry points; acceptance, value and error kind are compared with the reference.",
        "DESIGN.md section 2, C05",
        "Trusted: reference parser. The oracle demands an error from the set that applies, never a particular precedence.",
        []),
    "C06": _lt(
        "exhaustive bounded enumeration of byte arrays through binary conversion, all accessors and the hex layout",
        "All arrays deviating from 4 backgrounds in one byte plus all 2^16 header windows: store/try_from round trips (array and slice), every accessor including quartile(i) for all i and the out-of-range panic, the hex layout, clear_checksum; every slice length 0..=2*SIZE.",
        "DESIGN.md section 2, C06", "Trusted: field layout as stated in the property.", []),
    "C07": _lt(
        "configuration-matrix enumeration (every listed build produces identical per-block transcript digests of 13 exhaustive public-API enumerations), every compiled aggregation backend driven directly on exhaustive bucket-class compositions and per-lane sweeps, and preemption-bounded exhaustive schedule exploration of the first dispatching calls over real threads and the real OnceLock cells (one process per schedule)",
        "Three finite spaces are enumerated completely: (1) the listed configuration matrix (every cfg_if arm of the anchored files that compiles for x86-64 stable is selected by at least one entry; 9 builds quick, 44 thorough) x a 1.77M-record public-API transcript, compared block by block against the hook-default build, which is itself judged against the reference by the other checks; (2) every compiled bucket-aggregation backend (naive, SSE2, SSSE3, AVX2, dispatch) on all 3-class compositions x value alphabets around 2^31 and 2^32 x placements and on per-lane sweeps (body backends are C02); (3) all schedules of 2- and 3-thread harnesses of first dispatching calls up to a preemption bound, with scheduling points at function entry, closure entry and each CPU probe, blocking in OnceLock observed through /proc.",
        "DESIGN.md section 2, C07",
        "Trusted: std::sync::OnceLock itself; the explorer serialises threads, so data races on plain memory and weak-memory effects are not modelled. Configurations outside the list (non-x86 backends, nightly-only features) are not covered.",
        ["the configuration list covers every cfg_if arm that compiles on x86-64 stable", "std::sync::OnceLock is correct"]),
    "C08": _lt(
        "exhaustive bounded enumeration of hash pairs checked against the metric laws (no expected values)",
        "Reflexivity, zero-iff-equal, symmetry, boundedness, attained maximum, additivity of the length term and checksum clearing are checked on all one-byte-deviation pairs (all 2^16 values at every position of the whole hash) and on all ordered pairs of a 64/256-hash pool, every variant, both modes.",
        "DESIGN.md section 2, C08", "No reference values involved; laws only. Guards C02's oracle.", []),
    "C10": _lt(
        "exhaustive enumeration of the 2^32 length domain for the classification, and of generator states x all 32 option settings for the lattice law",
        "DataLengthValidity is compared with the reference on every u32 for the three bucket counts; on every visited generator state (all prefixes, all short inputs, all injected bucket compositions x 4 length classes, injected lengths around every boundary) the 32 real finalizations are checked pairwise along the permissiveness order and against the published classification.",
        "DESIGN.md section 2, C10", "Lattice law uses only the real outputs; the length law uses the crate's own published classification as the property states.", []),
    "C03": _lt(
        "explicit-state model checking (stateright BFS) of update/finalize/clone histories on the real generator with a lock-step reference, plus exhaustive enumeration of k-cut splits",
        "The real Generator is the transition system: from every reachable state every piece length of the alphabet, FinalizeAll and CloneSwap are applied; states merge only when the real generators' complete Debug snapshots are equal, so the search covers ALL histories over the piece alphabet up to the horizon (not a bounded number of steps). On every state processed_len and all 32 finalizations must equal the byte-at-a-time reference, now and after each of four suffixes. In addition every split of fixed inputs at up to k cut points is compared with a single update.",
        "DESIGN.md section 2, C03",
        "Trusted: stateright's search (run with 1 and 16 threads, unique-state counts equal); Debug text is used only as a merge key (over-fine keys cost time, not soundness). Control flow of update depends on lengths only, so five streams suffice for chunking logic (values are C01's job).",
        ["update's control flow depends only on piece lengths and the tail fill level"]),
    "C11": _lt(
        "explicit-state model checking (stateright BFS) of update/finalize/clone histories on the real generator from injected states just below the 4,224,281,216-byte and 2^32-byte marks, reference counter in u64; thorough: a real >4 GiB feed validates the injected states",
        "Histories start a few bytes before each mark (state injected through the hook), so every way a piece can start before / end on / straddle / start after a mark is a path of the explored graph; invariants: exact processed_len below 2^32 and None from 2^32, TooLargeInput iff n > MAX under all 32 options, reference result at n <= MAX, no panic (also in a build with overflow checks). The thorough tier feeds a real 2^32+64-byte stream and shows the injection hook is the identity on the really reached states.",
        "DESIGN.md section 2, C11",
        "Trusted: injection hook (validated in the thorough tier against a real feed); buckets of the injected states are synthetic (finalize only depends on them through C01's relation).",
        ["injected start states are representative: update's length logic does not depend on bucket contents"]),
    "C12": _lt(
        "deviation-bounded exhaustive enumeration of Read scripts (short reads, interruptions, hard errors, premature EOF) run on the real stream helpers vs hash_buf of the delivered bytes; real files of boundary sizes",
        "Every reader script with at most d deviations from the default answer (fill the buffer; then 0), over an 11-answer alphabet and 8 content lengths around the 1 MiB buffer, is run to completion through hash_stream_for / hash_stream; the oracle is the property itself (result of hash_buf on exactly the delivered bytes, or the first hard error as IOError).",
        "DESIGN.md section 2, C12",
        "Oracle uses hash_buf of the crate itself (judged by C01). Delivered bytes are a prefix of a fixed stream, so the expectation is cached per length.",
        []),
    "C15": _lt(
        "exhaustive enumeration in a strict-parser build: all 2^16 (checksum byte, length code) header combinations in text and binary, the deviation-bounded string enumeration of C05 under the strict rules, the complete one-step relation of the 48-bucket checksum (inductive invariant), and every generated hash of the prefix / short-input / injected-length enumerations",
        "The strict acceptance rule is decided on the complete 2^16 header domain per variant (text through every entry point, binary through array and slice), with the error kind required to be one that applies. That generated hashes are always strict-valid is decided by an inductive invariant checked on the complete one-step relation of the 48-bucket checksum (all 256 states x 2^16 byte pairs through a real update from an injected state; the initial state is 0), by C09's complete length domain, and by strict round trips of every Ok hash over the generator enumerations.",
        "DESIGN.md section 2, C15",
        "Runs in builds with feature strict-parser (hook build for the step relation). Both-invalid inputs may report either error.",
        []),
    "C16": _lt(
        "exhaustive enumeration of scripted Deserializer/Visitor event sequences (mock Deserializer answering every request with every event kind x payload) plus exhaustive value enumeration through three real serde formats, in four feature builds",
        "Environment enumeration at the serde seam: for is_human_readable in {true,false} the impl's request is answered with each of 20 visitor event kinds carrying each payload of a text and a binary payload alphabet (canonical, case, prefix, length +-1, empty, bad digit per field, doubled, strict-invalid checksum / length code); acceptance and value must equal the matching parser of the same build, everything else must be Err, never a panic. Real formats (serde_json, ciborium, postcard): canonical encodings and round trip on every one-byte-deviation value, and malformed / truncated / wrong-type documents. Builds: serde, serde+strict-parser, serde-buffered, serde-buffered+strict-parser.",
        "DESIGN.md section 2, C16",
        "Trusted: serde's data model contract for visitors; the three format crates. Bytes events in human-readable mode are only required not to be accepted with a value the text parser would not give.",
        []),
    "C17": _lt(
        "monitors attached to exhaustively enumerated executions: invariant monitor (hook) over complete domains and over contract-violating Read scripts, the other checks' enumerations re-run in a debug-assertions + overflow-checks build with panic classification, one child process per lying-reader script in builds where invariant!() is a real optimiser assumption, AddressSanitizer builds, and (thorough) a fixed work list executed under the Miri interpreter in three builds with feature 'unsafe'",
        "Model checking decides totality through monitors on every explored execution: (1) with the hook every invariant!() is an observable event in every feature configuration; it is checked on all 2^32 lengths, on every binary value of C06's enumeration, and on every reader script with <= 2 deviations that contains a lie about the bytes read (a false invariant reachable through the safe API is undefined behaviour under feature 'unsafe'); (2) the enumerations of C01, C03, C05, C06, C11, C12 are re-run in a build with debug assertions and overflow checks, where any panic other than the documented bucket-index one is a violation; (3) in the real 'unsafe' build without the hook each lying-reader script runs in its own child process and death by a signal is reported; (4) AddressSanitizer builds (release and opt-level 0) run the backend and buffer enumerations; (5) thorough: a fixed list of 1 406 small work items covering every public operation and every compiled SIMD backend is executed under Miri (16 shards) in three builds with feature 'unsafe'; undefined behaviour reported by the interpreter is a violation, every result is also judged by the reference model.",
        "DESIGN.md section 2, C17",
        "Limits: undefined behaviour is visible only through these monitors (false invariant, panic, signal, sanitizer report, interpreter report); raw-pointer SIMD code touches addresses that depend only on fixed-size array references. Non-x86 backends are not compiled here.",
        ["UB without an observable effect outside the Miri work list and the ASan enumerations is not detected"]),
    "C18": _lt(
        "allocation monitor (counting global allocator, armed per operation) attached to exhaustively enumerated call sequences in several build configurations, first calls in fresh processes, and a finite list of no-std build obligations",
        "A counting #[global_allocator] is armed around each core operation (new, update in piece rotations, processed_len, finalize_with_options x 32, finalize, clone, drop, TryFrom, store_into_*, from_str_bytes accepting and rejecting, FromStr, compare*, accessors, clear_checksum, string compare) for every short input, stream prefixes and every one-byte-deviation hash value, every variant, in the default-dispatch, no-SIMD and static-SIMD builds; each operation kind is also run as the very first library call of a fresh process (dispatch initialisation). The invariant is allocator calls == 0. The documented allocators are exercised to show the counter is live. The library must build with std and alloc disabled in 8 feature sets.",
        "DESIGN.md section 2, C18",
        "Allocations on other threads or inside the kernel are out of scope; counts are per calling thread while armed.",
        []),
    "C13": _lt(
        "exhaustive enumeration of ordered string pairs over a valid/invalid alphabet vs parse-then-compare",
        "All ordered pairs of a 34-string alphabet per variant (valid in every case/prefix form with one-field twins; invalid in every way the parser distinguishes) through compare_with / compare; result or (side, error) must equal parse-left, parse-right, compare.",
        "DESIGN.md section 2, C13", "Oracle uses the crate's own parser and compare (judged by C05/C02).", []),
    "C14": _lt(
        "exhaustive enumeration of buffer lengths 0..=N+64 x forms x sentinel fills",
        "Every buffer length up to N+64 for the three forms, 8 values, 3 position-dependent sentinel patterns: the error below N (the buffer's content after an error is not part of the property and not judged); exact representation and untouched tail otherwise.",
        "DESIGN.md section 2, C14", "Sentinel patterns are position dependent, so shifted or over-long writes are visible.", []),
    "C09": {
        "technique": "exhaustive enumeration of the complete 2^32 length domain and all 256 codes on the real encoder, compared with a linear-scan reference",
        "text": "Complete-domain model checking: every u32 length and every code byte is run through the real encoder/decoder and compared with an independent linear scan of a pinned table; generated hashes are checked for every n up to a bound by real feeding and at every table boundary (thorough: every n) by state injection. The length domain is finite, so the result is unconditional for the length-code part.",
        "design_ref": "DESIGN.md section 2, C09",
        "note": "Trusted: the pinned 170-entry table (bound to the official algorithm by closed forms for entries 0..21, the ratio law, and known-answer vectors); the state-injection hook (validated against really fed streams in C01/C11).",
        "assumptions": ["pinned reference table equals the official TLSH topval table", "state injection hook is the identity on reachable states (validated in C01g/C11 thorough)"],
    },
}
# Build obligations (compiler as oracle), run by the driver for the property they belong to.
NOSTD = ["cargo", "build", "--offline", "--manifest-path", "/repo/fast-tlsh/Cargo.toml", "--no-default-features"]
OBLIGATIONS = {
    "C18": [
        {"name": "no-std no-alloc", "cmd": NOSTD},
        {"name": "no-std + opt-default", "cmd": NOSTD + ["--features", "opt-default"]},
        {"name": "no-std + opt-embedded-default", "cmd": NOSTD + ["--features", "opt-embedded-default,opt-low-memory-buckets"]},
        {"name": "no-std + simd", "cmd": NOSTD + ["--features", "simd"]},
        {"name": "no-std + strict-parser", "cmd": NOSTD + ["--features", "strict-parser"]},
        {"name": "no-std + serde", "cmd": NOSTD + ["--features", "serde"]},
        {"name": "no-std + unsafe", "cmd": NOSTD + ["--features", "unsafe,simd"]},
        {"name": "alloc only", "cmd": NOSTD + ["--features", "alloc,easy-functions"]},
    ] + [
        # every feature that does not imply std, alone, without std and alloc
        {"name": "no-std + " + f, "cmd": NOSTD + ["--features", f]}
        for f in ["easy-functions", "serde-buffered", "simd-per-arch", "opt-simd", "opt-simd-body-comparison", "opt-simd-bucket-aggregation",
                  "opt-simd-parse-hex", "opt-simd-convert-hex", "opt-dist-length-table", "opt-dist-qratios-table", "opt-dist-qratios-table-double",
                  "opt-pearson-table-double", "opt-low-memory-buckets", "opt-low-memory-hex-str-decode-half-table",
                  "opt-low-memory-hex-str-decode-quarter-table", "opt-low-memory-hex-str-decode-min-table",
                  "opt-low-memory-hex-str-encode-half-table", "opt-low-memory-hex-str-encode-min-table",
                  "strict-parser,easy-functions,serde", "alloc,serde,strict-parser", "unsafe,easy-functions,opt-embedded-default"]
    ],
}

import itertools as _it
NOSTD_CHECK = ["cargo", "check", "--offline", "--manifest-path", "/repo/fast-tlsh/Cargo.toml", "--no-default-features"]
_base = ["easy-functions", "serde-buffered", "strict-parser", "unsafe", "simd", "alloc"]
for _k in range(2, len(_base) + 1):
    for _sub in _it.combinations(_base, _k):
        OBLIGATIONS["C18"].append({"name": "no-std check " + "+".join(_sub), "cmd": NOSTD_CHECK + ["--features", ",".join(_sub)]})
OBLIGATIONS["C18"].append({"name": "no-std check serde+unsafe", "cmd": NOSTD_CHECK + ["--features", "serde,unsafe"]})
OBLIGATIONS["C18"].append({"name": "no-std check serde+strict", "cmd": NOSTD_CHECK + ["--features", "serde,strict-parser"]})

NOT_APPLICABLE = {}
