"""Which binary configurations each check runs in each tier, and the level texts."""

def S(config, **kw):
    d = {"config": config}
    d.update(kw)
    return d

TECH_SWEEP = "exhaustive bounded enumeration of inputs on the real code vs reference model"

PLAN = {
    "C09": {
        "quick": [S("hook-default")],
        "thorough": [S("hook-default"), S("m3-none", tag="nosimd")],
    },
}

LEVEL_TEXT = {
    "C09": {
        "technique": "exhaustive enumeration of the complete 2^32 length domain and all 256 codes on the real encoder, compared with a linear-scan reference",
        "text": "Complete-domain model checking: every u32 length and every code byte is run through the real encoder/decoder and compared with an independent linear scan of a pinned table; generated hashes are checked for every n up to a bound by real feeding and at every table boundary (thorough: every n) by state injection. The length domain is finite, so the result is unconditional for the length-code part.",
        "design_ref": "DESIGN.md section 2, C09",
        "note": "Trusted: the pinned 170-entry table (bound to the official algorithm by closed forms for entries 0..21, the ratio law, and known-answer vectors); the state-injection hook (validated against really fed streams in C01/C11).",
        "assumptions": ["pinned reference table equals the official TLSH topval table", "state injection hook is the identity on reachable states (validated in C01g/C11 thorough)"],
    },
}
NOT_APPLICABLE = {}
