//! Result accounting: counters, outcome fingerprints, violations, JSON output.

use serde_json::{json, Map, Value};
use std::collections::HashSet;
use std::sync::atomic::{AtomicU64, Ordering};
use std::time::Instant;

pub fn fnv(bytes: &[u8]) -> u64 {
    let mut h: u64 = 0xcbf29ce484222325;
    for &b in bytes {
        h ^= b as u64;
        h = h.wrapping_mul(0x100000001b3);
    }
    h
}

pub fn fnv_u64s(vals: &[u64]) -> u64 {
    let mut h: u64 = 0xcbf29ce484222325;
    for &v in vals {
        for b in v.to_le_bytes() {
            h ^= b as u64;
            h = h.wrapping_mul(0x100000001b3);
        }
    }
    h
}

const OUTCOME_CAP: usize = 1 << 16;

#[derive(Default, Clone)]
pub struct OutcomeSet {
    set: HashSet<u64>,
    pub saturated: bool,
}

impl OutcomeSet {
    pub fn insert(&mut self, fp: u64) {
        if self.set.len() < OUTCOME_CAP {
            self.set.insert(fp);
        } else if !self.set.contains(&fp) {
            self.saturated = true;
        }
    }
    pub fn insert_bytes(&mut self, b: &[u8]) {
        self.insert(fnv(b));
    }
    pub fn merge(&mut self, other: &OutcomeSet) {
        for &x in &other.set {
            self.insert(x);
        }
        self.saturated |= other.saturated;
    }
    pub fn len(&self) -> usize {
        self.set.len()
    }
}

#[derive(Clone, Debug)]
pub struct Violation {
    pub section: String,
    pub summary: String,
    pub replay: Value,
}

/// Per-worker / per-section accumulator.
#[derive(Default, Clone)]
pub struct Acc {
    /// cases generated and judged
    pub evals: u64,
    /// operations applied to the real code and compared with the reference
    pub transitions: u64,
    /// cases that are non-trivial by the section's rule
    pub nontrivial: u64,
    pub outcomes: OutcomeSet,
    /// smallest (enumeration key, violation)
    pub viol: Option<(u64, Violation)>,
    pub samples: Vec<(u64, Value)>,
}

impl Acc {
    pub fn fail(&mut self, key: u64, section: &str, summary: String, replay: Value) {
        let better = match &self.viol {
            None => true,
            Some((k, _)) => key < *k,
        };
        if better {
            self.viol = Some((
                key,
                Violation {
                    section: section.to_string(),
                    summary,
                    replay,
                },
            ));
        }
    }
    pub fn sample(&mut self, key: u64, v: impl FnOnce() -> Value) {
        if self.samples.len() < 3 {
            self.samples.push((key, v()));
        }
    }
    pub fn merge(&mut self, o: Acc) {
        self.evals += o.evals;
        self.transitions += o.transitions;
        self.nontrivial += o.nontrivial;
        self.outcomes.merge(&o.outcomes);
        if let Some((k, v)) = o.viol {
            let better = match &self.viol {
                None => true,
                Some((k0, _)) => k < *k0,
            };
            if better {
                self.viol = Some((k, v));
            }
        }
        self.samples.extend(o.samples);
        self.samples.sort_by_key(|(k, _)| *k);
        self.samples.truncate(4);
    }
}

pub fn threads() -> usize {
    std::env::var("VERIF_THREADS")
        .ok()
        .and_then(|s| s.parse().ok())
        .unwrap_or_else(|| std::thread::available_parallelism().map(|n| n.get()).unwrap_or(4))
}

/// Enumerates `0..total` in blocks over all cores.  `f(idx, acc)` judges case
/// `idx`.  The smallest failing index is found deterministically: after a
/// failure workers skip only indices above the best failing key.
pub fn par_for(total: u64, block: u64, f: impl Fn(u64, &mut Acc) + Sync) -> Acc {
    let next = AtomicU64::new(0);
    let best = AtomicU64::new(u64::MAX);
    let nthreads = threads().min(((total + block - 1) / block).max(1) as usize);
    let mut result = Acc::default();
    std::thread::scope(|s| {
        let handles: Vec<_> = (0..nthreads)
            .map(|_| {
                s.spawn(|| {
                    let mut acc = Acc::default();
                    loop {
                        let start = next.fetch_add(block, Ordering::Relaxed);
                        if start >= total || start > best.load(Ordering::Relaxed) {
                            break;
                        }
                        let end = (start + block).min(total);
                        for idx in start..end {
                            if idx > best.load(Ordering::Relaxed) {
                                break;
                            }
                            // a panic that escapes the judge of one case is a verdict about that case (the
                            // operation under test did not complete), not a crash of the machinery
                            if let Err(p) = std::panic::catch_unwind(std::panic::AssertUnwindSafe(|| f(idx, &mut acc))) {
                                if crate::checks::common::last_panic_in_harness() {
                                    // the harness's own code panicked: a machinery defect, never a verdict
                                    eprintln!("MACHINERY ERROR: the harness panicked at {} while evaluating case {idx}", crate::checks::common::last_panic_file());
                                    std::panic::resume_unwind(p);
                                }
                                let msg = p.downcast_ref::<&str>().map(|s| s.to_string()).or_else(|| p.downcast_ref::<String>().cloned()).unwrap_or_else(|| "non-string panic".into());
                                acc.fail(idx, "", format!("the operation under test panicked while case {idx} of this enumeration was evaluated: {msg}"), serde_json::json!({"kind": "panic-in-case", "key": "panic-in-case", "index": idx}));
                            }
                            if let Some((k, _)) = &acc.viol {
                                best.fetch_min(*k, Ordering::Relaxed);
                            }
                        }
                    }
                    acc
                })
            })
            .collect();
        for h in handles {
            match h.join() {
                Ok(acc) => result.merge(acc),
                Err(p) => std::panic::resume_unwind(p),
            }
        }
    });
    result
}

/// One section of a check (one enumerated space).
pub struct Section {
    pub name: String,
    pub rule: String,
    pub bound: String,
    pub exhaustive: bool,
    pub states: u64,
    pub acc: Acc,
    pub caps: Vec<String>,
    pub extra: Map<String, Value>,
    pub wall_s: f64,
}

impl Section {
    pub fn to_json(&self) -> Value {
        let mut m = Map::new();
        m.insert("name".into(), json!(self.name));
        m.insert("rule".into(), json!(self.rule));
        m.insert("bound".into(), json!(self.bound));
        m.insert("exhaustive".into(), json!(self.exhaustive));
        m.insert("states".into(), json!(self.states));
        m.insert("evaluations".into(), json!(self.acc.evals));
        m.insert("transitions".into(), json!(self.acc.transitions));
        m.insert("distinct_nontrivial".into(), json!(self.acc.nontrivial));
        m.insert("distinct_outcomes".into(), json!(self.acc.outcomes.len()));
        m.insert(
            "distinct_outcomes_saturated".into(),
            json!(self.acc.outcomes.saturated),
        );
        m.insert(
            "samples".into(),
            Value::Array(self.acc.samples.iter().map(|(_, v)| v.clone()).collect()),
        );
        m.insert("caps_hit".into(), json!(self.caps));
        m.insert("wall_s".into(), json!(self.wall_s));
        for (k, v) in &self.extra {
            m.insert(k.clone(), v.clone());
        }
        Value::Object(m)
    }
}

pub struct Report {
    pub property: String,
    pub tier: String,
    pub seed: u64,
    pub config: String,
    pub sections: Vec<Section>,
    pub violations: Vec<Violation>,
    pub notes: Vec<String>,
    pub start: Instant,
}

impl Report {
    pub fn new(property: &str, tier: &str, seed: u64, config: &str) -> Self {
        Report {
            property: property.into(),
            tier: tier.into(),
            seed,
            config: config.into(),
            sections: Vec::new(),
            violations: Vec::new(),
            notes: Vec::new(),
            start: Instant::now(),
        }
    }

    /// Runs one section, timing it, and files its violation (if any).
    pub fn section(
        &mut self,
        name: &str,
        rule: &str,
        bound: &str,
        exhaustive: bool,
        body: impl FnOnce(&mut Section),
    ) {
        let t = Instant::now();
        let mut s = Section {
            name: name.into(),
            rule: rule.into(),
            bound: bound.into(),
            exhaustive,
            states: 0,
            acc: Acc::default(),
            caps: Vec::new(),
            extra: Map::new(),
            wall_s: 0.0,
        };
        if let Err(p) = std::panic::catch_unwind(std::panic::AssertUnwindSafe(|| body(&mut s))) {
            if crate::checks::common::last_panic_in_harness() {
                eprintln!("MACHINERY ERROR: the harness panicked at {} in section {name}", crate::checks::common::last_panic_file());
                std::panic::resume_unwind(p);
            }
            let msg = p.downcast_ref::<&str>().map(|s| s.to_string()).or_else(|| p.downcast_ref::<String>().cloned()).unwrap_or_else(|| "non-string panic".into());
            s.acc.fail(u64::MAX - 1, name, format!("the operation under test panicked while this enumeration ran: {msg}"), serde_json::json!({"kind": "panic-in-case", "key": "panic-in-case"}));
        }
        if s.states == 0 {
            s.states = s.acc.evals;
        }
        s.wall_s = t.elapsed().as_secs_f64();
        if let Some((_, v)) = s.acc.viol.take() {
            let mut v = v;
            if v.section.is_empty() {
                v.section = name.into();
            }
            self.violations.push(v);
        }
        eprintln!(
            "[{} {}] {:<28} evals={} transitions={} nontrivial={} outcomes={} {:.2}s{}",
            self.property,
            self.config,
            s.name,
            s.acc.evals,
            s.acc.transitions,
            s.acc.nontrivial,
            s.acc.outcomes.len(),
            s.wall_s,
            if self.violations.is_empty() { "" } else { "  VIOLATION" }
        );
        self.sections.push(s);
    }

    pub fn to_json(&self) -> Value {
        json!({
            "property": self.property,
            "tier": self.tier,
            "seed": self.seed,
            "config": self.config,
            "sections": self.sections.iter().map(|s| s.to_json()).collect::<Vec<_>>(),
            "violations": self.violations.iter().map(|v| json!({
                "section": v.section, "summary": v.summary, "replay": v.replay
            })).collect::<Vec<_>>(),
            "notes": self.notes,
            "wall_s": self.start.elapsed().as_secs_f64(),
        })
    }
}
