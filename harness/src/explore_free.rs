//! State judge shared by C03/C11 that does not need stateright.
use crate::checks::common::*;
use crate::refmodel::*;
use crate::variant::*;
use tlsh::GeneratorType;

pub fn judge_state_free<V: Variant>(g: &V::Gen, r: &RefGen) -> Result<(), String> {
    let expect_len = if r.n < (1u64 << 32) { Some(r.n as u32) } else { None };
    let got = catch(|| g.processed_len()).map_err(|p| format!("processed_len panicked: {p}"))?;
    if got != expect_len {
        return Err(format!("processed_len() = {got:?} after {} bytes, expected {expect_len:?}", r.n));
    }
    compare_all_opts::<V>(g, r).map(|_| ())
}
