//! Operation sequences on one fresh thread (hidden state between calls).
//!
//! The library's functions other than the generator are specified as pure: a result may not
//! depend on what was called before. A memo, a scratch buffer hoisted to a `static` or a
//! `thread_local!`, or a cache keyed on part of the arguments breaks that only for particular
//! *sequences* of calls. This module enumerates every ordered pair (and, for a reduced
//! alphabet, every triple) of self-judging operations; each sequence runs on a freshly spawned
//! thread (fresh thread-local state), every operation of the sequence is judged by the
//! reference model exactly as in isolation. The alphabets are built so that the values of
//! different operations share leading bytes / leading text across variants and differ in
//! exactly one part, which is what a partial-key memo needs in order to go wrong.

use crate::checks::codec::*;
use crate::checks::common::*;
use crate::readers::*;
use crate::refmodel::ref_hex_format;
use crate::report::*;
use crate::streams::Stream;
use crate::variant::*;
use crate::Ctx;
use serde_json::{json, Value};
use std::collections::HashMap;
use std::sync::{Arc, Mutex};
use tlsh::{FuzzyHashType, GeneratorType};

pub struct Op {
    pub name: String,
    pub domain: &'static str,
    /// part of the reduced alphabet (used for triples and as foreign first operations in the quick tier)
    pub core: bool,
    pub run: Arc<dyn Fn() -> Result<(), String> + Send + Sync>,
}

fn push(ops: &mut Vec<Op>, domain: &'static str, core: bool, name: String, f: impl Fn() -> Result<(), String> + Send + Sync + 'static) {
    ops.push(Op { name, domain, core, run: Arc::new(f) });
}

/// One byte pattern for all variants: a variant's value is a prefix of it, so values of different
/// variants share their leading bytes (and their leading text).
fn ramp<V: Variant>() -> Vec<u8> {
    let mut b: Vec<u8> = (0..V::SIZE).map(|i| (i * 37 + 11) as u8).collect();
    if STRICT {
        // one shared strict-valid header for all variants is impossible with 1- and 3-byte checksums at the
        // same offsets; keep the header constructible per variant
        if V::NB == 48 {
            b[0] %= 49;
        }
        b[V::CK] %= 170;
    }
    b
}

fn values<V: Variant>() -> Vec<(&'static str, Vec<u8>)> {
    let r = ramp::<V>();
    let mut v = vec![("ramp", r.clone())];
    let mut last = r.clone();
    *last.last_mut().unwrap() ^= 0x3c;
    v.push(("ramp-last", last));
    let mut mid = r.clone();
    mid[V::CK + 2 + V::BODY / 2] ^= 0x81;
    v.push(("ramp-mid", mid));
    for k in 0..V::CK {
        let mut c = r.clone();
        c[k] = if V::NB == 48 && k == 0 { (c[k] + 1) % 49 } else { c[k] ^ 0x01 };
        v.push((["ramp-ck0", "ramp-ck1", "ramp-ck2"][k], c));
    }
    let mut l = r.clone();
    l[V::CK] = (l[V::CK] + 5) % 170;
    v.push(("ramp-len", l));
    let mut q = r.clone();
    q[V::CK + 1] ^= 0x10;
    v.push(("ramp-q", q));
    v.push(("zeros", vec![0u8; V::SIZE]));
    v
}

fn per_variant<V: Variant>(ops: &mut Vec<Op>) {
    let v = V::NAME;
    let vals = values::<V>();
    // ---- codec domain
    for (vi, (vn, val)) in vals.iter().enumerate() {
        // codec operations on the pattern, two body twins and zeros (the header twins matter for comparison only)
        if !matches!(*vn, "ramp" | "ramp-last" | "ramp-mid" | "zeros") {
            continue;
        }
        let core = vi < 2;
        let b = val.clone();
        push(ops, "codec", core, format!("{v}/format/{vn}"), move || judge_format::<V>(&b));
        let b = val.clone();
        push(ops, "codec", false, format!("{v}/binary/{vn}"), move || judge_binary::<V>(&b));
        for (form, fname) in [(0usize, "bytes"), (1, "hex"), (2, "hex-prefix")] {
            let n = [V::SIZE, V::STRLEN - 2, V::STRLEN][form];
            for (extra, en) in [(0usize, "exact"), (9, "plus9")] {
                let b = val.clone();
                push(ops, "codec", core && extra == 9 && form == 1, format!("{v}/store-{fname}-{en}/{vn}"), move || judge_buffer::<V>(&b, form, n + extra, 0x61));
            }
        }
        let text = ref_hex_format(val, V::CK, true);
        let forms: Vec<(&str, Vec<u8>)> = vec![
            ("upper", text.clone()),
            ("lower", [&b"T1"[..], &text[2..].to_ascii_lowercase()].concat()),
            ("noprefix", text[2..].to_vec()),
        ];
        for (fname, s) in forms {
            let s2 = s.clone();
            push(ops, "codec", core && fname != "noprefix", format!("{v}/parse-{fname}/{vn}"), move || {
                judge_parse::<V>(&s2)?;
                judge_canonical::<V>(&s2).map(|_| ())
            });
        }
    }
    {
        // rejected strings (error paths may leave state behind)
        let good = ref_hex_format(&vals[0].1, V::CK, true);
        let mut bad = good.clone();
        let p = bad.len() - 3;
        bad[p] = b'@';
        push(ops, "codec", true, format!("{v}/parse-bad-char"), move || judge_parse::<V>(&bad).map(|_| ()));
        let short = good[..good.len() - 1].to_vec();
        push(ops, "codec", false, format!("{v}/parse-bad-length"), move || judge_parse::<V>(&short).map(|_| ()));
    }
    // ---- compare domain: the ramp value against each one-part twin, both directions, both modes, then the string helper
    let base = vals[0].1.clone();
    for (vi, (vn, val)) in vals.iter().enumerate() {
        let (a, b) = (base.clone(), val.clone());
        push(ops, "compare", vi < 4, format!("{v}/compare/ramp-vs-{vn}"), move || {
            crate::checks::c02::judge_pair::<V>(&a, &b)?;
            crate::checks::c02::judge_pair::<V>(&b, &a).map(|_| ())
        });
        let (a, b) = (base.clone(), val.clone());
        push(ops, "compare", false, format!("{v}/laws/ramp-vs-{vn}"), move || crate::checks::c08::judge_laws::<V>(&a, &b).map(|_| ()));
        let (a, b) = (base.clone(), val.clone());
        push(ops, "compare", vi == 1, format!("{v}/compare-strings/ramp-vs-{vn}"), move || {
            let l = String::from_utf8(ref_hex_format(&a, V::CK, true)).unwrap();
            let r = String::from_utf8(ref_hex_format(&b, V::CK, false)).unwrap().to_ascii_lowercase();
            crate::checks::c13::judge_strings::<V>(&l, &r).map(|_| ())
        });
    }
    // ---- generator domain: whole inputs in two feeding styles (all 32 option settings judged each time)
    for (dn, st, n) in [("mixed60", Stream::Mixed, 60usize), ("runs60", Stream::Runs, 60), ("mixed5", Stream::Mixed, 5), ("mixed200", Stream::Mixed, 200), ("zeros60", Stream::Zeros, 60)] {
        push(ops, "generate", dn == "mixed60" || dn == "mixed5", format!("{v}/generate-whole/{dn}"), move || {
            crate::checks::c01::judge_input::<V>(&st.bytes(0, n)).map(|_| ())
        });
        push(ops, "generate", dn == "runs60", format!("{v}/generate-pieces/{dn}"), move || {
            let data = st.bytes(0, n);
            let mut g = V::new_gen();
            for c in data.chunks(7) {
                g.update(c);
            }
            let r = ref_fed::<V>(&data);
            compare_all_opts::<V>(&g, &r).map(|_| ())
        });
    }
    // two live generators fed alternately (state that belongs in `self` but was hoisted to a static would mix them up)
    for (dn, sa, sb, pa, pb) in [("mixed-vs-runs", Stream::Mixed, Stream::Runs, 7usize, 5usize), ("mixed-vs-zeros", Stream::Mixed, Stream::Zeros, 1, 64), ("alpha-vs-a40e", Stream::Alpha, Stream::A40e, 3, 4)] {
        push(ops, "generate", dn == "mixed-vs-runs", format!("{v}/generate-interleaved/{dn}"), move || {
            let (da, db) = (sa.bytes(0, 150), sb.bytes(0, 150));
            let (mut ga, mut gb) = (V::new_gen(), V::new_gen());
            let (mut oa, mut ob) = (0usize, 0usize);
            let mut round = 0;
            while oa < da.len() || ob < db.len() {
                let ka = pa.min(da.len() - oa);
                ga.update(&da[oa..oa + ka]);
                oa += ka;
                let kb = pb.min(db.len() - ob);
                gb.update(&db[ob..ob + kb]);
                ob += kb;
                round += 1;
                if round % 9 == 0 {
                    // finalize one while the other is mid-stream
                    compare_all_opts::<V>(&ga, &ref_fed::<V>(&da[..oa])).map_err(|e| format!("generator A after {oa} bytes (interleaved with B at {ob}): {e}"))?;
                }
            }
            compare_all_opts::<V>(&ga, &ref_fed::<V>(&da)).map_err(|e| format!("generator A (interleaved): {e}"))?;
            compare_all_opts::<V>(&gb, &ref_fed::<V>(&db)).map_err(|e| format!("generator B (interleaved): {e}"))?;
            Ok(())
        });
    }
    // ---- stream domain
    let scripts: Vec<(&'static str, Script)> = vec![
        ("honest-70", Script { total: 70, deviations: vec![] }),
        ("short-reads-70", Script { total: 70, deviations: vec![(0, Ans::Deliver(3)), (1, Ans::Deliver(4))] }),
        ("error-after-data-70", Script { total: 70, deviations: vec![(0, Ans::Deliver(40)), (1, Ans::Hard(std::io::ErrorKind::Other))] }),
        ("error-first-70", Script { total: 70, deviations: vec![(0, Ans::Hard(std::io::ErrorKind::PermissionDenied))] }),
        ("interrupted-70", Script { total: 70, deviations: vec![(0, Ans::Interrupted), (1, Ans::Deliver(5))] }),
        ("honest-9", Script { total: 9, deviations: vec![] }),
        ("honest-0", Script { total: 0, deviations: vec![] }),
        ("honest-2MiB", Script { total: 2 * BUF as u64 + 17, deviations: vec![(1, Ans::Deliver(BUF - 1))] }),
    ];
    for (sn, sc) in scripts {
        let big = sc.total > BUF as u64;
        if big && V::NB != 128 {
            continue;
        }
        push(ops, "stream", !big && (sn == "honest-70" || sn == "error-after-data-70"), format!("{v}/stream/{sn}"), move || {
            let cache = Mutex::new(HashMap::new());
            crate::checks::c12::judge_script::<V>(Stream::Mixed, &sc, &cache).map(|_| ())
        });
    }
}

pub fn ops() -> Vec<Op> {
    let mut v = Vec::new();
    per_variant::<VShort>(&mut v);
    per_variant::<VNormal>(&mut v);
    per_variant::<VNormalLC>(&mut v);
    per_variant::<VLong>(&mut v);
    per_variant::<VLongLC>(&mut v);
    v
}

/// Runs the named operations in order on ONE freshly spawned thread; Err names the first operation whose
/// judge rejects its result.
pub fn run_sequence(ops: &[&Op]) -> Result<(), String> {
    let runs: Vec<(String, Arc<dyn Fn() -> Result<(), String> + Send + Sync>)> = ops.iter().map(|o| (o.name.clone(), o.run.clone())).collect();
    let names: Vec<String> = ops.iter().map(|o| o.name.clone()).collect();
    let h = std::thread::spawn(move || {
        for (k, (name, f)) in runs.iter().enumerate() {
            match catch(|| f()) {
                Ok(Ok(())) => {}
                Ok(Err(e)) => return Err(format!("operation {} of the sequence ({name}): {e}", k + 1)),
                Err(p) => return Err(format!("operation {} of the sequence ({name}) panicked: {p}", k + 1)),
            }
        }
        Ok(())
    });
    match h.join() {
        Ok(r) => r.map_err(|e| format!("sequence {names:?} on a fresh thread: {e}")),
        Err(_) => Err(format!("sequence {names:?}: thread died")),
    }
}

/// Section for one property: second (and third) operations from `domain`, first operations from everywhere.
pub fn section(r: &mut Report, ctx: &Ctx, domain: &'static str) {
    let name = format!("sequences-{domain}");
    if !ctx.want(&name) {
        return;
    }
    let quick = ctx.quick();
    let all = ops();
    let own: Vec<usize> = (0..all.len()).filter(|&i| all[i].domain == domain).collect();
    // first operations: the whole own domain, plus foreign operations (quick: their reduced alphabet)
    let firsts: Vec<usize> = (0..all.len()).filter(|&i| all[i].domain == domain || !quick || all[i].core).collect();
    let core_own: Vec<usize> = own.iter().copied().filter(|&i| all[i].core).collect();
    let pairs = (firsts.len() * own.len()) as u64;
    let triples = if quick { 0 } else { (core_own.len() * core_own.len() * core_own.len()) as u64 };
    r.section(
        &name,
        "operation sequences (hidden state between calls): every ordered pair (first operation from the listed alphabet of ALL domains, second from this property's domain) and, thorough, every ordered triple over the reduced alphabet of this domain; each sequence runs on a freshly spawned thread and EVERY operation in it is judged by the reference model exactly as in isolation. Alphabet: per variant, 8-10 hash values that are prefixes of one byte pattern (so values of different variants share leading bytes and text) and one-part twins of it; operations format / store into exact and larger buffers / parse (upper, lower, no prefix, rejected) / binary conversion; compare in both directions and modes, metric laws, string helper; whole-input generation in two feeding styles under all 32 options; reader scripts incl. an error after data and a >1 MiB stream; non-trivial = sequences whose operations differ",
        &format!("{} first x {} second operations = {pairs} pairs; {triples} triples over {} operations", firsts.len(), own.len(), core_own.len()),
        true,
        |s| {
            let all = &all;
            let firsts = &firsts;
            let own = &own;
            let core_own = &core_own;
            s.acc = par_for(pairs + triples, 16, |idx, acc| {
                let seq: Vec<&Op> = if idx < pairs {
                    let (i, j) = (firsts[(idx / own.len() as u64) as usize], own[(idx % own.len() as u64) as usize]);
                    vec![&all[i], &all[j]]
                } else {
                    let t = idx - pairs;
                    let n = core_own.len() as u64;
                    vec![&all[core_own[(t / n / n) as usize]], &all[core_own[((t / n) % n) as usize]], &all[core_own[(t % n) as usize]]]
                };
                acc.evals += 1;
                acc.transitions += seq.len() as u64;
                if seq.windows(2).any(|w| w[0].name != w[1].name) {
                    acc.nontrivial += 1;
                }
                match run_sequence(&seq) {
                    Ok(()) => {
                        acc.outcomes.insert(seq.len() as u64);
                        if idx % 4099 == 0 {
                            acc.sample(idx, || json!({"sequence": seq.iter().map(|o| o.name.clone()).collect::<Vec<_>>()}));
                        }
                    }
                    Err(e) => acc.fail(idx, &name, e, json!({"kind": "sequence", "key": format!("sequence-{}", seq.iter().map(|o| o.name.as_str()).collect::<Vec<_>>().join(">")), "ops": seq.iter().map(|o| o.name.clone()).collect::<Vec<_>>()})),
                }
            });
        },
    );
}

pub fn replay(case: &Value) -> Result<(), String> {
    quiet_panics();
    let names: Vec<String> = case["ops"].as_array().ok_or("ops")?.iter().filter_map(|x| x.as_str().map(|s| s.to_string())).collect();
    let all = ops();
    let mut seq = Vec::new();
    for n in &names {
        seq.push(all.iter().find(|o| &o.name == n).ok_or_else(|| format!("unknown operation {n}"))?);
    }
    // the sequence alone on a fresh thread, then each operation alone (to show that it is the sequence that matters)
    let together = run_sequence(&seq);
    for o in &seq {
        if let Err(e) = run_sequence(&[o]) {
            println!("operation {} fails even alone: {e}", o.name);
        }
    }
    together
}

#[allow(dead_code)]
fn _unused<V: Variant>(h: &V::Hash, g: &V::Gen) {
    let _ = (h.compare(h), g.processed_len());
}
