//! E5 — configuration-independent transcripts of the public API.
//!
//! A transcript section is a fixed enumeration of public-API calls; record `i` is the
//! byte encoding of everything call `i` returned.  Every build configuration must produce
//! identical records.  Digests are kept per block so that a mismatch can be bisected to
//! the first differing record with two small dumps.

use crate::checks::c01::{short_string, short_string_count};
use crate::checks::c02::backgrounds;
use crate::checks::c08::pool;
use crate::checks::codec::*;
use crate::checks::common::*;
use crate::refmodel::kat;
use crate::refmodel::Opts;
use crate::report::fnv;
use crate::streams::Stream;
use crate::variant::*;
use crate::with_variant;
use tlsh::{ComparisonConfiguration, FuzzyHashType, GeneratorType, HexStringPrefix};

pub const BLOCKS: u64 = 64;

pub const SECTIONS: [&str; 13] = [
    "gen-short", "gen-prefix", "gen-kat", "gen-splits", "fmt", "parse", "binary", "cmp-header", "cmp-body", "cmp-pool", "buffers", "strings", "lencode",
];

fn outcomes_record<V: Variant>(g: &V::Gen, out: &mut Vec<u8>) {
    match g.processed_len() {
        Some(n) => out.extend_from_slice(&n.to_le_bytes()),
        None => out.extend_from_slice(b"none"),
    }
    for o in Opts::all() {
        match real_finalize::<V>(g, &o) {
            Ok(b) => {
                out.push(0);
                out.extend_from_slice(&b);
            }
            Err(e) => out.push(1 + e as u8),
        }
    }
}

fn parse_record<V: Variant>(s: &[u8], out: &mut Vec<u8>) {
    for (mode, _) in modes() {
        match <V::Hash as FuzzyHashType>::from_str_bytes(s, mode) {
            Ok(h) => {
                out.push(0);
                out.extend_from_slice(&V::to_bytes(&h));
            }
            Err(e) => out.push(1 + map_parse_err(&e) as u8),
        }
    }
}

fn cmp2<V: Variant>(a: &[u8], b: &[u8], out: &mut Vec<u8>) {
    match (V::from_slice(a), V::from_slice(b)) {
        (Ok(x), Ok(y)) => {
            out.extend_from_slice(&x.compare_with_config(&y, ComparisonConfiguration::Default).to_le_bytes());
            out.extend_from_slice(&x.compare_with_config(&y, ComparisonConfiguration::NoLength).to_le_bytes());
        }
        _ => out.push(0xee),
    }
}

pub fn section_len(name: &str) -> u64 {
    fn per_variant(f: impl Fn(usize) -> u64) -> u64 {
        (0..5).map(f).sum()
    }
    let sizes = |v: usize| -> (u64, u64, u64) {
        // (SIZE, STRLEN, BODY)
        match v {
            0 => (15, 32, 12),
            1 => (35, 72, 32),
            2 => (37, 76, 32),
            3 => (67, 136, 64),
            _ => (69, 140, 64),
        }
    };
    match name {
        "gen-short" => short_string_count(4, 7) * 5,
        "gen-prefix" => 5 * 5 * 401,
        "gen-kat" => 14 * 5,
        "gen-splits" => 2145 * 5,
        "fmt" | "binary" => per_variant(|v| sizes(v).0 * 4 * 256),
        "parse" => per_variant(|v| 6 * sizes(v).1 * 256),
        "cmp-header" => per_variant(|v| (sizes(v).0 - sizes(v).2) * 4 * 256),
        "cmp-body" => per_variant(|v| sizes(v).2 * 6 * 256),
        "cmp-pool" => 5 * 64 * 64,
        "buffers" => per_variant(|v| 8 * 3 * (sizes(v).1 + 65) * 3),
        "strings" => 5 * (crate::checks::c13::STRING_ALPHABET_LEN * crate::checks::c13::STRING_ALPHABET_LEN) as u64,
        "lencode" => 65536 + 170 * 5,
        _ => 0,
    }
}

/// Splits a global index of a per-variant section into (variant, local index).
fn split_variant(name: &str, mut idx: u64) -> (usize, u64) {
    let sizes = |v: usize| -> (u64, u64, u64) {
        match v {
            0 => (15, 32, 12),
            1 => (35, 72, 32),
            2 => (37, 76, 32),
            3 => (67, 136, 64),
            _ => (69, 140, 64),
        }
    };
    for v in 0..5 {
        let n = match name {
            "fmt" | "binary" => sizes(v).0 * 4 * 256,
            "parse" => 6 * sizes(v).1 * 256,
            "cmp-header" => (sizes(v).0 - sizes(v).2) * 4 * 256,
            "cmp-body" => sizes(v).2 * 6 * 256,
            "buffers" => 8 * 3 * (sizes(v).1 + 65) * 3,
            _ => unreachable!(),
        };
        if idx < n {
            return (v, idx);
        }
        idx -= n;
    }
    (4, 0)
}

fn lenient_value<V: Variant>(idx: u64) -> Vec<u8> {
    // same enumeration in every configuration (no strict adjustment: the matrix has no strict builds)
    let x = (idx % 256) as u8;
    let bg = ((idx / 256) % 4) as usize;
    let pos = (idx / 1024) as usize;
    let mut b: Vec<u8> = match bg {
        0 => vec![0x00; V::SIZE],
        1 => vec![0xff; V::SIZE],
        2 => vec![0x5a; V::SIZE],
        _ => (0..V::SIZE).map(|i| (i * 37 + 11) as u8).collect(),
    };
    b[pos] = x;
    b
}

fn base_string<V: Variant>(b: usize) -> Vec<u8> {
    let n = V::STRLEN - 2;
    let mut s = b"T1".to_vec();
    for i in 0..n {
        s.push(match b % 3 {
            0 => b"0123456789"[(i * 7 + 3) % 10],
            1 => b"ABCDEF"[(i * 5 + 1) % 6],
            _ => b"0a1B2c3D4e5F6f7E8d9Cab"[(i * 13 + 5) % 22],
        });
    }
    if b >= 3 {
        s.drain(..2);
    }
    s
}

/// Produces record `idx` of section `name`; a panic of the library becomes the record's content, so that a
/// configuration in which an operation panics differs from one in which it does not.
pub fn record(name: &str, idx: u64) -> Vec<u8> {
    match std::panic::catch_unwind(|| record_inner(name, idx)) {
        Ok(r) => r,
        Err(p) => {
            let msg = p.downcast_ref::<&str>().map(|s| s.to_string()).or_else(|| p.downcast_ref::<String>().cloned()).unwrap_or_default();
            format!("PANIC:{msg}").into_bytes()
        }
    }
}

fn record_inner(name: &str, idx: u64) -> Vec<u8> {
    let mut out = Vec::new();
    match name {
        "gen-short" => {
            let data = short_string(&[0x00, 0x41, 0x7f, 0xff], idx / 5);
            fn go<V: Variant>(d: &[u8], out: &mut Vec<u8>) {
                outcomes_record::<V>(&fresh_fed::<V>(d), out)
            }
            with_variant!(idx % 5, go(&data, &mut out));
        }
        "gen-prefix" => {
            let n = idx % 401;
            let v = (idx / 401) % 5;
            let st = Stream::all(0)[(idx / 401 / 5) as usize];
            let data = st.bytes(0, n as usize);
            fn go<V: Variant>(d: &[u8], out: &mut Vec<u8>) {
                // byte-at-a-time feeding (a different update path than gen-short)
                let mut g = V::new_gen();
                for b in d {
                    g.update(&[*b]);
                }
                outcomes_record::<V>(&g, out)
            }
            with_variant!(v, go(&data, &mut out));
        }
        "gen-kat" => {
            let mut inputs: Vec<Vec<u8>> = Vec::new();
            for k in kat::kats() {
                if !inputs.contains(&k.data) {
                    inputs.push(k.data);
                }
            }
            let data = &inputs[(idx / 5) as usize % inputs.len()];
            fn go<V: Variant>(d: &[u8], out: &mut Vec<u8>) {
                outcomes_record::<V>(&fresh_fed::<V>(d), out)
            }
            with_variant!(idx % 5, go(data, &mut out));
        }
        "gen-splits" => {
            // 64 bytes, two cuts (c1 <= c2), enumeration order by (c1, c2)
            let mut k = idx / 5;
            let mut c1 = 0u64;
            while k >= 65 - c1 {
                k -= 65 - c1;
                c1 += 1;
            }
            let c2 = c1 + k;
            let data = Stream::Mixed.bytes(0, 64);
            fn go<V: Variant>(d: &[u8], c1: usize, c2: usize, out: &mut Vec<u8>) {
                let mut g = V::new_gen();
                g.update(&d[..c1]);
                g.update(&d[c1..c2]);
                let c = g.clone();
                g.update(&d[c2..]);
                outcomes_record::<V>(&g, out);
                outcomes_record::<V>(&c, out);
            }
            with_variant!(idx % 5, go(&data, c1 as usize, c2 as usize, &mut out));
        }
        "fmt" => {
            let (v, i) = split_variant(name, idx);
            fn go<V: Variant>(i: u64, out: &mut Vec<u8>) {
                let b = lenient_value::<V>(i);
                match V::from_slice(&b) {
                    Ok(h) => {
                        out.extend_from_slice(h.to_string().as_bytes());
                        let mut buf = vec![0u8; V::STRLEN];
                        let r = h.store_into_str_bytes(&mut buf, HexStringPrefix::Empty);
                        out.push(r.is_ok() as u8);
                        out.extend_from_slice(&buf);
                        let r = h.store_into_str_bytes(&mut buf, HexStringPrefix::WithVersion);
                        out.push(r.is_ok() as u8);
                        out.extend_from_slice(&buf);
                    }
                    Err(e) => out.push(0xe0 + map_parse_err(&e) as u8),
                }
            }
            with_variant!(v, go(i, &mut out));
        }
        "parse" => {
            let (v, i) = split_variant(name, idx);
            fn go<V: Variant>(i: u64, out: &mut Vec<u8>) {
                let x = (i % 256) as u8;
                let pos = ((i / 256) % V::STRLEN as u64) as usize;
                let b = (i / 256 / V::STRLEN as u64) as usize;
                let mut s = base_string::<V>(b);
                if pos < s.len() {
                    s[pos] = x;
                }
                parse_record::<V>(&s, out);
                // also a length neighbour
                if pos == 0 {
                    parse_record::<V>(&s[1..], out);
                }
            }
            with_variant!(v, go(i, &mut out));
        }
        "binary" => {
            let (v, i) = split_variant(name, idx);
            fn go<V: Variant>(i: u64, out: &mut Vec<u8>) {
                let b = lenient_value::<V>(i);
                match V::from_slice(&b) {
                    Ok(h) => {
                        out.extend_from_slice(&V::to_bytes(&h));
                        out.extend_from_slice(&V::checksum_bytes(&h));
                        out.push(h.length().value());
                        out.push(h.qratios().value());
                        out.push(V::quartile(&h, (i % V::NB as u64) as usize));
                        out.push(V::checksum_valid(&h) as u8 | (h.length().is_valid() as u8) << 1);
                        let mut c = h;
                        c.clear_checksum();
                        out.extend_from_slice(&V::to_bytes(&c)[..V::CK + 1]);
                    }
                    Err(e) => out.push(0xe0 + map_parse_err(&e) as u8),
                }
                out.push(V::from_slice(&b[1..]).is_ok() as u8);
            }
            with_variant!(v, go(i, &mut out));
        }
        "cmp-header" => {
            let (v, i) = split_variant(name, idx);
            fn go<V: Variant>(i: u64, out: &mut Vec<u8>) {
                let x = (i % 256) as u8;
                let bg = ((i / 256) % 4) as usize;
                let pos = (i / 1024) as usize;
                let fill = [0x00u8, 0xff, 0x5a, 0x24][bg];
                let mut a = vec![fill; V::SIZE];
                let mut b = vec![fill; V::SIZE];
                for y in 0..=255u8 {
                    a[pos] = x;
                    b[pos] = y;
                    cmp2::<V>(&a, &b, out);
                }
            }
            with_variant!(v, go(i, &mut out));
        }
        "cmp-body" => {
            let (v, i) = split_variant(name, idx);
            fn go<V: Variant>(i: u64, out: &mut Vec<u8>) {
                let x = (i % 256) as u8;
                let bg = [0usize, 5, 10, 15, 16, 17][((i / 256) % 6) as usize];
                let pos = (i / 256 / 6) as usize;
                let bgs = backgrounds(V::BODY);
                let mut a = vec![0u8; V::SIZE];
                let mut b = vec![0u8; V::SIZE];
                a[V::CK + 2..].copy_from_slice(&bgs[bg].0);
                b[V::CK + 2..].copy_from_slice(&bgs[bg].1);
                a[V::CK + 2 + pos] = x;
                for y in 0..=255u8 {
                    b[V::CK + 2 + pos] = y;
                    cmp2::<V>(&a, &b, out);
                }
            }
            with_variant!(v, go(i, &mut out));
        }
        "cmp-pool" => {
            fn go<V: Variant>(i: u64, out: &mut Vec<u8>) {
                let p = pool::<V>(64);
                cmp2::<V>(&p[(i / 64) as usize], &p[(i % 64) as usize], out);
            }
            with_variant!(idx / 4096, go(idx % 4096, &mut out));
        }
        "buffers" => {
            let (v, i) = split_variant(name, idx);
            fn go<V: Variant>(i: u64, out: &mut Vec<u8>) {
                let nl = (V::STRLEN + 65) as u64;
                let fill = [0x00u8, 0xa5, 0xff][(i % 3) as usize];
                let len = ((i / 3) % nl) as usize;
                let form = ((i / 3 / nl) % 3) as usize;
                let k = i / 9 / nl;
                let val: Vec<u8> = (0..V::SIZE).map(|j| (crate::streams::splitmix64(k * 977 + j as u64) >> 16) as u8).collect();
                let h = match V::from_slice(&val) {
                    Ok(h) => h,
                    Err(_) => {
                        out.push(0xee);
                        return;
                    }
                };
                let mut buf: Vec<u8> = (0..len).map(|j| fill ^ ((j as u8).wrapping_mul(31) & 0x0f)).collect();
                let r = match form {
                    0 => h.store_into_bytes(&mut buf),
                    1 => h.store_into_str_bytes(&mut buf, HexStringPrefix::Empty),
                    _ => h.store_into_str_bytes(&mut buf, HexStringPrefix::WithVersion),
                };
                match r {
                    Ok(n) => out.extend_from_slice(&(n as u32).to_le_bytes()),
                    Err(_) => out.push(0xfe),
                }
                out.extend_from_slice(&buf);
            }
            with_variant!(v, go(i, &mut out));
        }
        "strings" => {
            fn go<V: Variant>(i: u64, out: &mut Vec<u8>) {
                let alpha = crate::checks::c13::string_alphabet_lenient::<V>();
                let n = alpha.len() as u64;
                assert_eq!(n as usize, crate::checks::c13::STRING_ALPHABET_LEN);
                let (l, r) = (&alpha[(i / n) as usize], &alpha[(i % n) as usize]);
                match V::compare_with(l, r) {
                    Ok(d) => out.extend_from_slice(&d.to_le_bytes()),
                    Err(e) => {
                        out.push(0xf0 + (e.side() == tlsh::ParseErrorSide::Right) as u8);
                        out.push(map_parse_err(&e.inner_err()) as u8);
                    }
                }
            }
            let nn = (crate::checks::c13::STRING_ALPHABET_LEN * crate::checks::c13::STRING_ALPHABET_LEN) as u64;
            with_variant!(idx / nn, go(idx % nn, &mut out));
        }
        "lencode" => {
            let n: u32 = if idx < 65536 {
                (idx as u32).wrapping_mul(65521)
            } else {
                let k = idx - 65536;
                let t = crate::refmodel::tables::TOPVAL[(k / 5) as usize];
                t.wrapping_add((k % 5) as u32).wrapping_sub(2)
            };
            match tlsh::length::FuzzyHashLengthEncoding::new(n) {
                Some(e) => {
                    out.push(e.value());
                    if let Some(r) = e.range() {
                        out.extend_from_slice(&r.start().to_le_bytes());
                        out.extend_from_slice(&r.end().to_le_bytes());
                    }
                }
                None => out.push(0xff),
            }
        }
        _ => {}
    }
    out
}

/// Digest of one block: chained fnv over (index, record).
pub fn block_digest(name: &str, block: u64) -> u64 {
    let total = section_len(name);
    let per = (total + BLOCKS - 1) / BLOCKS;
    let start = block * per;
    let end = ((block + 1) * per).min(total);
    let mut h: u64 = 0x9e3779b97f4a7c15 ^ block;
    for i in start..end {
        let r = record(name, i);
        h = h.rotate_left(13) ^ fnv(&r) ^ i.wrapping_mul(0x100000001b3);
        h = h.wrapping_mul(0xff51afd7ed558ccd);
    }
    h
}

/// Dumps the records of one block as "index hex" lines.
pub fn dump_block(name: &str, block: u64) -> String {
    let total = section_len(name);
    let per = (total + BLOCKS - 1) / BLOCKS;
    let start = block * per;
    let end = ((block + 1) * per).min(total);
    let mut s = String::new();
    for i in start..end {
        s.push_str(&format!("{i} {}\n", hex(&record(name, i))));
    }
    s
}
