//! E3 — scripted `Read` implementations: a default answer ("fill the buffer until the
//! content is exhausted, then return 0") plus a bounded number of deviations.

use crate::streams::Stream;
use std::io::{Error, ErrorKind, Read};

pub const BUF: usize = 1_048_576;

#[derive(Debug, Clone, Copy, PartialEq, Eq, Hash)]
pub enum Ans {
    Fill,
    Deliver(usize),
    Interrupted,
    Hard(ErrorKind),
    Eof,
    /// contract violation: report `buf.len() + 1` bytes read
    MisreportPlus1,
    /// contract violation: report `usize::MAX`
    MisreportMax,
    /// contract violation: report `2 * buf.len()`
    MisreportDouble,
    /// deliver k bytes for real but report k + buf.len()
    DeliverThenMisreport(usize),
}

impl Ans {
    pub fn name(&self) -> String {
        match self {
            Ans::Fill => "fill".into(),
            Ans::Deliver(k) => format!("deliver:{k}"),
            Ans::Interrupted => "interrupted".into(),
            Ans::Hard(k) => format!("hard:{k:?}"),
            Ans::Eof => "eof".into(),
            Ans::MisreportPlus1 => "misreport:+1".into(),
            Ans::MisreportMax => "misreport:max".into(),
            Ans::MisreportDouble => "misreport:x2".into(),
            Ans::DeliverThenMisreport(k) => format!("deliver-misreport:{k}"),
        }
    }
    pub fn parse(s: &str) -> Option<Ans> {
        Some(match s {
            "fill" => Ans::Fill,
            "interrupted" => Ans::Interrupted,
            "eof" => Ans::Eof,
            "misreport:+1" => Ans::MisreportPlus1,
            "misreport:max" => Ans::MisreportMax,
            "misreport:x2" => Ans::MisreportDouble,
            _ => {
                if let Some(k) = s.strip_prefix("deliver:") {
                    Ans::Deliver(k.parse().ok()?)
                } else if let Some(k) = s.strip_prefix("deliver-misreport:") {
                    Ans::DeliverThenMisreport(k.parse().ok()?)
                } else if let Some(k) = s.strip_prefix("hard:") {
                    Ans::Hard(match k {
                        "PermissionDenied" => ErrorKind::PermissionDenied,
                        "UnexpectedEof" => ErrorKind::UnexpectedEof,
                        "WouldBlock" => ErrorKind::WouldBlock,
                        "TimedOut" => ErrorKind::TimedOut,
                        "InvalidData" => ErrorKind::InvalidData,
                        _ => ErrorKind::Other,
                    })
                } else {
                    return None;
                }
            }
        })
    }
    pub fn is_lie(&self) -> bool {
        matches!(self, Ans::MisreportPlus1 | Ans::MisreportMax | Ans::MisreportDouble | Ans::DeliverThenMisreport(_))
    }
}

/// Sparse script: (step index, answer) pairs; every other step gets the default answer.
#[derive(Debug, Clone, PartialEq, Eq, Hash)]
pub struct Script {
    pub total: u64,
    pub deviations: Vec<(usize, Ans)>,
}

impl Script {
    pub fn to_json(&self) -> serde_json::Value {
        serde_json::json!({
            "total": self.total,
            "deviations": self.deviations.iter().map(|(i, a)| serde_json::json!([i, a.name()])).collect::<Vec<_>>(),
        })
    }
    pub fn from_json(v: &serde_json::Value) -> Option<Script> {
        let total = v["total"].as_u64()?;
        let mut deviations = Vec::new();
        for d in v["deviations"].as_array()? {
            deviations.push((d[0].as_u64()? as usize, Ans::parse(d[1].as_str()?)?));
        }
        Some(Script { total, deviations })
    }
}

pub struct ScriptReader {
    pub stream: Stream,
    pub script: Script,
    pub pos: u64,
    pub step: usize,
    /// number of deviations actually consumed
    pub consumed: usize,
    pub first_hard: Option<ErrorKind>,
    pub interrupts: usize,
    pub lied: bool,
    pub calls_after_eof: usize,
    pub saw_eof: bool,
    /// bytes delivered before the first 0-byte read (the stream ends there; a later read may deliver more)
    pub eof_pos: Option<u64>,
    /// first hard error reported after a 0-byte read (only a helper that reads on after the end meets it)
    pub hard_after_eof: Option<ErrorKind>,
    pub buf_lens: Vec<usize>,
}

impl ScriptReader {
    pub fn new(stream: Stream, script: Script) -> Self {
        ScriptReader { stream, script, pos: 0, step: 0, consumed: 0, first_hard: None, interrupts: 0, lied: false, calls_after_eof: 0, saw_eof: false, eof_pos: None, hard_after_eof: None, buf_lens: Vec::new() }
    }
    fn deliver(&mut self, buf: &mut [u8], k: usize) -> usize {
        let remaining = (self.script.total - self.pos) as usize;
        let n = k.min(remaining).min(buf.len());
        self.stream.fill(self.pos, &mut buf[..n]);
        self.pos += n as u64;
        if n == 0 && !buf.is_empty() {
            self.saw_eof = true;
            if self.eof_pos.is_none() {
                self.eof_pos = Some(self.pos);
            }
        }
        n
    }
}

impl Read for ScriptReader {
    fn read(&mut self, buf: &mut [u8]) -> std::io::Result<usize> {
        if self.saw_eof || self.first_hard.is_some() {
            self.calls_after_eof += 1;
        }
        if self.buf_lens.len() < 8 {
            self.buf_lens.push(buf.len());
        }
        let ans = match self.script.deviations.iter().find(|(i, _)| *i == self.step) {
            Some((_, a)) => {
                self.consumed += 1;
                *a
            }
            None => Ans::Fill,
        };
        self.step += 1;
        match ans {
            Ans::Fill => {
                let n = buf.len();
                Ok(self.deliver(buf, n))
            }
            Ans::Deliver(k) => Ok(self.deliver(buf, k)),
            Ans::Interrupted => {
                self.interrupts += 1;
                Err(Error::new(ErrorKind::Interrupted, "scripted interruption"))
            }
            Ans::Hard(kind) => {
                if self.saw_eof && self.hard_after_eof.is_none() {
                    self.hard_after_eof = Some(kind);
                }
                if self.first_hard.is_none() {
                    self.first_hard = Some(kind);
                }
                Err(Error::new(kind, "scripted hard error"))
            }
            Ans::Eof => {
                self.saw_eof = true;
                if self.eof_pos.is_none() {
                    self.eof_pos = Some(self.pos);
                }
                Ok(0)
            }
            Ans::MisreportPlus1 => {
                self.lied = true;
                Ok(buf.len() + 1)
            }
            Ans::MisreportMax => {
                self.lied = true;
                Ok(usize::MAX)
            }
            Ans::MisreportDouble => {
                self.lied = true;
                Ok(buf.len() * 2)
            }
            Ans::DeliverThenMisreport(k) => {
                self.lied = true;
                let n = self.deliver(buf, k);
                Ok(n + buf.len())
            }
        }
    }
}

/// All scripts with exactly `d` deviations over steps `0..steps` from `alphabet`.
pub fn scripts_with(total: u64, steps: usize, alphabet: &[Ans], d: usize) -> Vec<Script> {
    fn rec(total: u64, steps: usize, alphabet: &[Ans], d: usize, from: usize, cur: &mut Vec<(usize, Ans)>, out: &mut Vec<Script>) {
        if d == 0 {
            out.push(Script { total, deviations: cur.clone() });
            return;
        }
        for p in from..steps {
            for &a in alphabet {
                cur.push((p, a));
                rec(total, steps, alphabet, d - 1, p + 1, cur, out);
                cur.pop();
            }
        }
    }
    let mut out = Vec::new();
    rec(total, steps, alphabet, d, 0, &mut Vec::new(), &mut out);
    out
}

pub fn default_steps(total: u64) -> usize {
    ((total as usize + BUF - 1) / BUF) + 1
}
