//! E4 — stateless schedule exploration over REAL threads and the real `std::sync::OnceLock`
//! dispatch cells.
//!
//! One fresh process per schedule (a `static OnceLock` cannot be reset).  Threads stop at the
//! scheduling points the hooks provide (`enter:<fn>`, `init:<fn>`, `probe-<feature>:<fn>`,
//! `fallback:<fn>`) and wait for a baton; the scheduler grants it to one thread at a time.  A
//! granted thread that ends up waiting in a futex that is not the harness's own (observed via
//! /proc/self/task/<tid>/syscall) is recorded as *blocked in OnceLock* — blocking is observed,
//! never assumed.
#![cfg(fast_tlsh_verif)]

use crate::checks::common::*;
use crate::refmodel::*;
use crate::streams::Stream;
use crate::variant::*;
use serde_json::{json, Value};
use std::cell::Cell;
use std::sync::atomic::{AtomicBool, AtomicI64, AtomicU32, AtomicUsize, Ordering};
use std::sync::{Mutex, OnceLock};
use std::time::{Duration, Instant};
use tlsh::{FuzzyHashType, GeneratorType};

pub const OPS: [&str; 5] = ["cmp32", "cmp64", "fin48", "fin128", "fin256"];

const ST_NEW: u32 = 0;
const ST_AT_POINT: u32 = 1;
const ST_RUNNING: u32 = 2;
const ST_DONE: u32 = 3;

struct Shared {
    n: usize,
    state: Vec<AtomicU32>,
    grant: Vec<AtomicBool>,
    tid: Vec<AtomicI64>,
    site: Vec<Mutex<&'static str>>,
    /// number of scheduling points each thread has passed
    points: Vec<AtomicUsize>,
    /// true while the thread is inside the harness callback (its futex waits are the harness's own)
    in_callback: Vec<AtomicBool>,
    handles: Mutex<Vec<Option<std::thread::Thread>>>,
}

static SHARED: OnceLock<Shared> = OnceLock::new();

thread_local! {
    static MY_ID: Cell<Option<usize>> = const { Cell::new(None) };
}

fn callback(site: &'static str) {
    let id = match MY_ID.with(|c| c.get()) {
        Some(id) => id,
        None => return,
    };
    let sh = SHARED.get().expect("shared");
    sh.in_callback[id].store(true, Ordering::SeqCst);
    *sh.site[id].lock().unwrap() = site;
    sh.points[id].fetch_add(1, Ordering::SeqCst);
    sh.state[id].store(ST_AT_POINT, Ordering::SeqCst);
    // wait for the baton
    while !sh.grant[id].swap(false, Ordering::SeqCst) {
        std::thread::park_timeout(Duration::from_millis(20));
    }
    sh.in_callback[id].store(false, Ordering::SeqCst);
}

fn in_foreign_futex(tid: i64) -> bool {
    // first field of /proc/self/task/<tid>/syscall is the syscall number; 202 = futex (x86-64)
    match std::fs::read_to_string(format!("/proc/self/task/{tid}/syscall")) {
        Ok(s) => s.split_whitespace().next() == Some("202"),
        Err(_) => false,
    }
}

/// The operation each thread performs as its first library call, with its expected result.
pub fn run_op(op: &str) -> Result<String, String> {
    let data = Stream::Mixed.bytes(0, 700);
    match op {
        "cmp32" | "cmp64" => {
            fn go<V: Variant>() -> Result<String, String> {
                let a: Vec<u8> = (0..V::SIZE).map(|i| (i * 7 + 1) as u8).collect();
                let b: Vec<u8> = (0..V::SIZE).map(|i| (i * 13 + 5) as u8).collect();
                let ha = V::from_slice(&a).map_err(|e| format!("{e:?}"))?;
                let hb = V::from_slice(&b).map_err(|e| format!("{e:?}"))?;
                let real = ha.compare(&hb);
                let expect = ref_distance(&a, &b, V::CK, true);
                if real != expect {
                    return Err(format!("{} compare = {real}, reference = {expect}", V::NAME));
                }
                Ok(format!("{real}"))
            }
            if op == "cmp32" {
                go::<VNormal>()
            } else {
                go::<VLong>()
            }
        }
        "fin48" | "fin128" | "fin256" => {
            fn go<V: Variant>(data: &[u8]) -> Result<String, String> {
                let mut g = V::new_gen();
                g.update(data);
                let o = permissive(true);
                let real = real_finalize::<V>(&g, &o);
                let mut r = V::ref_gen();
                r.feed_all(data);
                let expect = ref_outcome(&r, &o);
                if real != expect {
                    return Err(format!("{} finalize = {}, reference = {}", V::NAME, outcome_str(&real), outcome_str(&expect)));
                }
                Ok(outcome_str(&real))
            }
            match op {
                "fin48" => go::<VShort>(&data),
                "fin128" => go::<VNormal>(&data),
                _ => go::<VLong>(&data),
            }
        }
        _ => Err(format!("unknown op {op}")),
    }
}

/// Child mode: runs one schedule and prints a JSON trace.
/// `ops`: one first-call operation per thread (a thread may have a second op after '+').
/// `schedule`: indices into the enabled list at each decision point; beyond it choice 0.
pub fn child_main(ops: &[String], schedule: &[usize]) -> Value {
    quiet_panics();
    let n = ops.len();
    let sh = Shared {
        n,
        state: (0..n).map(|_| AtomicU32::new(ST_NEW)).collect(),
        grant: (0..n).map(|_| AtomicBool::new(false)).collect(),
        tid: (0..n).map(|_| AtomicI64::new(0)).collect(),
        site: (0..n).map(|_| Mutex::new("")).collect(),
        points: (0..n).map(|_| AtomicUsize::new(0)).collect(),
        in_callback: (0..n).map(|_| AtomicBool::new(false)).collect(),
        handles: Mutex::new(vec![None; n]),
    };
    let _ = SHARED.set(sh);
    let sh = SHARED.get().unwrap();
    assert!(tlsh::verif::set_sched_callback(callback), "callback already installed");
    let results: Vec<Mutex<Option<Result<String, String>>>> = (0..n).map(|_| Mutex::new(None)).collect();
    let results = std::sync::Arc::new(results);
    let mut joins = Vec::new();
    for id in 0..n {
        let ops_t: Vec<String> = ops[id].split('+').map(|s| s.to_string()).collect();
        let results = results.clone();
        let j = std::thread::spawn(move || {
            let sh = SHARED.get().unwrap();
            sh.tid[id].store(unsafe { libc::syscall(libc::SYS_gettid) } as i64, Ordering::SeqCst);
            sh.handles.lock().unwrap()[id] = Some(std::thread::current());
            MY_ID.with(|c| c.set(Some(id)));
            callback("start");
            let mut out: Result<String, String> = Ok(String::new());
            for op in &ops_t {
                let r = catch(|| run_op(op));
                let r = match r {
                    Ok(r) => r,
                    Err(p) => Err(format!("panic: {p}")),
                };
                match (&mut out, r) {
                    (Ok(acc), Ok(s)) => {
                        if !acc.is_empty() {
                            acc.push('|');
                        }
                        acc.push_str(&s);
                    }
                    (Ok(_), Err(e)) => out = Err(e),
                    _ => {}
                }
            }
            *results[id].lock().unwrap() = Some(out);
            MY_ID.with(|c| c.set(None));
            sh.state[id].store(ST_DONE, Ordering::SeqCst);
        });
        joins.push(j);
    }

    let start = Instant::now();
    let mut blocked = vec![false; n];
    let mut blocked_events: Vec<Value> = Vec::new();
    let mut decisions: Vec<Value> = Vec::new();
    let mut last: Option<usize> = None;
    let mut verdict = "complete".to_string();
    let in_closure = |id: usize| -> bool {
        let s = *sh.site[id].lock().unwrap();
        sh.state[id].load(Ordering::SeqCst) == ST_AT_POINT && (s.starts_with("init:") || s.starts_with("probe-") || s.starts_with("fallback:"))
    };
    'outer: loop {
        // ---- wait for quiescence
        let mut futex_polls = vec![0u32; n];
        let wait_start = Instant::now();
        let mut all_blocked_since: Option<Instant> = None;
        loop {
            let mut all_quiet = true;
            for id in 0..n {
                let st = sh.state[id].load(Ordering::SeqCst);
                if st == ST_AT_POINT || st == ST_DONE {
                    blocked[id] = false;
                    continue;
                }
                if st == ST_NEW {
                    all_quiet = false;
                    continue;
                }
                // RUNNING
                if blocked[id] {
                    // accepted as quiescent only while some other thread is inside a detection closure
                    let someone_in_closure = (0..n).any(|o| o != id && in_closure(o));
                    if !someone_in_closure {
                        all_quiet = false;
                    }
                    continue;
                }
                all_quiet = false;
                let tid = sh.tid[id].load(Ordering::SeqCst);
                if tid != 0 && !sh.in_callback[id].load(Ordering::SeqCst) && in_foreign_futex(tid) && !sh.in_callback[id].load(Ordering::SeqCst) {
                    futex_polls[id] += 1;
                    if futex_polls[id] >= 15 && sh.state[id].load(Ordering::SeqCst) == ST_RUNNING {
                        blocked[id] = true;
                        blocked_events.push(json!({"thread": id, "after_decision": decisions.len(), "site": *sh.site[id].lock().unwrap()}));
                    }
                } else {
                    futex_polls[id] = 0;
                }
            }
            if all_quiet {
                break;
            }
            // every live thread is blocked outside the harness and nobody is parked at a point:
            // no thread can ever release another one -> deadlock (after a grace period)
            let live: Vec<usize> = (0..n).filter(|&id| sh.state[id].load(Ordering::SeqCst) != ST_DONE).collect();
            let all_blocked = !live.is_empty() && live.iter().all(|&id| sh.state[id].load(Ordering::SeqCst) == ST_RUNNING && blocked[id]);
            if all_blocked {
                let since = *all_blocked_since.get_or_insert_with(Instant::now);
                if since.elapsed() > Duration::from_secs(3) {
                    verdict = "deadlock".into();
                    break 'outer;
                }
            } else {
                all_blocked_since = None;
            }
            if wait_start.elapsed() > Duration::from_secs(15) || start.elapsed() > Duration::from_secs(60) {
                // inconclusive (possibly an overloaded machine): the parent treats this as machinery, not as a verdict
                verdict = "timeout".into();
                break 'outer;
            }
            std::thread::sleep(Duration::from_micros(500));
        }
        // ---- enabled set in canonical order
        let mut enabled: Vec<usize> = Vec::new();
        if let Some(l) = last {
            if sh.state[l].load(Ordering::SeqCst) == ST_AT_POINT {
                enabled.push(l);
            }
        }
        for id in 0..n {
            if sh.state[id].load(Ordering::SeqCst) == ST_AT_POINT && Some(id) != last {
                enabled.push(id);
            }
        }
        if enabled.is_empty() {
            if (0..n).all(|id| sh.state[id].load(Ordering::SeqCst) == ST_DONE) {
                break;
            }
            // only blocked threads remain and nobody can release them
            verdict = "deadlock".into();
            break;
        }
        let k = decisions.len();
        let choice = if k < schedule.len() { schedule[k] } else { 0 };
        if choice >= enabled.len() {
            verdict = format!("schedule-out-of-range at decision {k}: choice {choice} of {}", enabled.len());
            break;
        }
        let chosen = enabled[choice];
        let still = last.map(|l| enabled.first() == Some(&l)).unwrap_or(false);
        decisions.push(json!({
            "enabled": enabled,
            "sites": enabled.iter().map(|&id| *sh.site[id].lock().unwrap()).collect::<Vec<_>>(),
            "choice": choice,
            "chosen": chosen,
            "running_still_enabled": still,
            "blocked": (0..n).filter(|&i| blocked[i]).collect::<Vec<_>>(),
        }));
        last = Some(chosen);
        sh.state[chosen].store(ST_RUNNING, Ordering::SeqCst);
        sh.grant[chosen].store(true, Ordering::SeqCst);
        if let Some(t) = &sh.handles.lock().unwrap()[chosen] {
            t.unpark();
        }
    }
    let mut res = Vec::new();
    if verdict == "complete" {
        for j in joins {
            let _ = j.join();
        }
        for id in 0..n {
            res.push(match results[id].lock().unwrap().clone() {
                Some(Ok(s)) => json!({"ok": s}),
                Some(Err(e)) => json!({"err": e}),
                None => json!({"err": "no result"}),
            });
        }
    }
    let _ = sh.n;
    json!({"verdict": verdict, "decisions": decisions, "results": res, "blocked_events": blocked_events,
           "points": (0..n).map(|i| sh.points[i].load(Ordering::SeqCst)).collect::<Vec<_>>()})
}

// ---------------------------------------------------------------------------
// Parent: preemption-bounded DFS over schedules, one child process per schedule.

pub struct SchedStats {
    pub schedules: u64,
    pub decisions: u64,
    pub max_decisions: u64,
    pub blocked_observed: u64,
    pub distinct_traces: std::collections::HashSet<u64>,
    pub violation: Option<(String, Value)>,
    pub machinery: Option<String>,
    pub sample: Option<Value>,
}

fn run_child(exe: &std::path::Path, ops: &[String], schedule: &[usize]) -> Result<Value, String> {
    let sched: Vec<String> = schedule.iter().map(|x| x.to_string()).collect();
    let out = std::process::Command::new(exe)
        .args(["sched-child", &ops.join(","), &sched.join(",")])
        .output()
        .map_err(|e| format!("spawn: {e}"))?;
    if !out.status.success() {
        return Err(format!("child exited with {:?}: {}", out.status, String::from_utf8_lossy(&out.stderr)));
    }
    serde_json::from_slice(&out.stdout).map_err(|e| format!("child output: {e}: {}", String::from_utf8_lossy(&out.stdout)))
}

fn judge_trace(ops: &[String], trace: &Value) -> Result<(), String> {
    let verdict = trace["verdict"].as_str().unwrap_or("");
    if verdict == "timeout" {
        return Err("TIMEOUT".into());
    }
    if verdict != "complete" {
        return Err(format!("schedule ended with {verdict}"));
    }
    for (i, r) in trace["results"].as_array().cloned().unwrap_or_default().iter().enumerate() {
        if let Some(e) = r.get("err") {
            return Err(format!("thread {i} ({}) failed: {}", ops[i], e));
        }
    }
    Ok(())
}

fn trace_fp(trace: &Value) -> u64 {
    let mut s = String::new();
    for d in trace["decisions"].as_array().cloned().unwrap_or_default() {
        s.push_str(&format!("{}:{}:{};", d["chosen"], d["sites"], d["blocked"]));
    }
    s.push_str(&trace["results"].to_string());
    crate::report::fnv(s.as_bytes())
}

/// Explores all schedules of one harness with at most `bound` preemptions.
pub fn explore_harness(exe: &std::path::Path, ops: &[String], bound: usize, max_schedules: u64) -> SchedStats {
    let mut st = SchedStats { schedules: 0, decisions: 0, max_decisions: 0, blocked_observed: 0, distinct_traces: Default::default(), violation: None, machinery: None, sample: None };
    let mut stack: Vec<Vec<usize>> = vec![vec![]];
    while let Some(prefix) = stack.pop() {
        if st.schedules >= max_schedules {
            st.machinery = Some(format!("cap of {max_schedules} schedules hit"));
            break;
        }
        let mut trace = None;
        let mut last_err = String::new();
        for _attempt in 0..3 {
            match run_child(exe, ops, &prefix) {
                Ok(t) => {
                    // the child must have followed the prefix
                    let ds = t["decisions"].as_array().cloned().unwrap_or_default();
                    let follows = prefix.iter().enumerate().all(|(i, &c)| ds.get(i).map(|d| d["choice"].as_u64() == Some(c as u64)).unwrap_or(false));
                    if follows || t["verdict"].as_str() != Some("complete") {
                        trace = Some(t);
                        break;
                    }
                    last_err = "child diverged from the schedule prefix".into();
                }
                Err(e) => last_err = e,
            }
        }
        let trace = match trace {
            Some(t) => t,
            None => {
                st.machinery = Some(format!("schedule {:?}: {last_err}", prefix));
                break;
            }
        };
        st.schedules += 1;
        let ds = trace["decisions"].as_array().cloned().unwrap_or_default();
        st.decisions += ds.len() as u64;
        st.max_decisions = st.max_decisions.max(ds.len() as u64);
        if !trace["blocked_events"].as_array().map(|a| a.is_empty()).unwrap_or(true) {
            st.blocked_observed += 1;
        }
        st.distinct_traces.insert(trace_fp(&trace));
        if st.sample.is_none() && ds.len() > 2 {
            st.sample = Some(json!({"ops": ops, "schedule": prefix, "decisions": ds.iter().map(|d| json!([d["chosen"], d["sites"]])).collect::<Vec<_>>(), "results": trace["results"]}));
        }
        if let Err(e) = judge_trace(ops, &trace) {
            if e == "TIMEOUT" {
                st.machinery = Some(format!("schedule {:?}: child timed out waiting for quiescence (inconclusive)", prefix));
                break;
            }
            // replay twice: must fail identically
            let choices: Vec<usize> = ds.iter().map(|d| d["choice"].as_u64().unwrap_or(0) as usize).collect();
            let again1 = run_child(exe, ops, &choices).ok().map(|t| judge_trace(ops, &t).err());
            let again2 = run_child(exe, ops, &choices).ok().map(|t| judge_trace(ops, &t).err());
            if again1.clone().flatten().is_some() && again2.flatten().is_some() {
                st.violation = Some((
                    format!("threads {:?}, schedule {:?}: {e}", ops, choices),
                    json!({"kind": "schedule", "key": "schedule", "ops": ops, "schedule": choices, "trace": trace}),
                ));
            } else {
                st.machinery = Some(format!("schedule {:?} failed once ({e}) but not on replay: {:?}", choices, again1));
            }
            break;
        }
        // children of this node
        let mut preemptions = 0usize;
        for (i, d) in ds.iter().enumerate() {
            let still = d["running_still_enabled"].as_bool().unwrap_or(false);
            let choice = d["choice"].as_u64().unwrap_or(0) as usize;
            if i >= prefix.len() {
                let n_enabled = d["enabled"].as_array().map(|a| a.len()).unwrap_or(0);
                let cost = preemptions + if still { 1 } else { 0 };
                if cost <= bound {
                    for alt in 1..n_enabled {
                        let mut p: Vec<usize> = ds[..i].iter().map(|x| x["choice"].as_u64().unwrap_or(0) as usize).collect();
                        p.push(alt);
                        stack.push(p);
                    }
                }
            }
            if still && choice != 0 {
                preemptions += 1;
            }
        }
    }
    st
}

/// All multisets of size `n` over OPS (each thread's first operation).
pub fn harnesses(n: usize) -> Vec<Vec<String>> {
    fn rec(n: usize, from: usize, cur: &mut Vec<String>, out: &mut Vec<Vec<String>>) {
        if n == 0 {
            out.push(cur.clone());
            return;
        }
        for i in from..OPS.len() {
            cur.push(OPS[i].to_string());
            rec(n - 1, i, cur, out);
            cur.pop();
        }
    }
    let mut out = Vec::new();
    rec(n, 0, &mut Vec::new(), &mut out);
    out
}
