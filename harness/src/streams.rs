//! Deterministic byte streams: a stream's byte is a function of its absolute offset.

pub fn splitmix64(mut x: u64) -> u64 {
    x = x.wrapping_add(0x9E3779B97F4A7C15);
    let mut z = x;
    z = (z ^ (z >> 30)).wrapping_mul(0xBF58476D1CE4E5B9);
    z = (z ^ (z >> 27)).wrapping_mul(0x94D049BB133111EB);
    z ^ (z >> 31)
}

#[derive(Debug, Clone, Copy, PartialEq, Eq, Hash)]
pub enum Stream {
    /// S0: well-mixed bytes
    Mixed,
    /// S1: 'A'..='Z' cycle
    Alpha,
    /// S2: zeros
    Zeros,
    /// S3: a4 0e period 2
    A40e,
    /// S4: seed-derived
    Seeded(u64),
    /// S5: runs of equal bytes, run lengths cycling 1..=9 and 12, values cycling through
    /// seven "special" bytes (content-dependent fast paths: padding, NUL, newline, 0xff)
    Runs,
}

const RUN_LENS: [u64; 10] = [1, 2, 3, 4, 5, 6, 7, 8, 9, 12];
const RUN_VALS: [u8; 7] = [0x00, 0xff, 0x41, 0x0a, 0x20, 0x80, 0x7f];

impl Stream {
    #[inline]
    pub fn byte(&self, off: u64) -> u8 {
        match *self {
            Stream::Mixed => (splitmix64(off) >> 56) as u8,
            Stream::Alpha => b'A' + (off % 26) as u8,
            Stream::Zeros => 0,
            Stream::A40e => {
                if off % 2 == 0 {
                    0xa4
                } else {
                    0x0e
                }
            }
            Stream::Seeded(s) => (splitmix64(off ^ s.wrapping_mul(0xD6E8FEB86659FD93)) >> 48) as u8,
            Stream::Runs => {
                const PERIOD: u64 = 57;
                let (cycle, mut pos) = (off / PERIOD, off % PERIOD);
                let mut r = 0u64;
                while pos >= RUN_LENS[r as usize] {
                    pos -= RUN_LENS[r as usize];
                    r += 1;
                }
                RUN_VALS[((cycle * 10 + r) % 7) as usize]
            }
        }
    }
    pub fn fill(&self, off: u64, out: &mut [u8]) {
        for (i, b) in out.iter_mut().enumerate() {
            *b = self.byte(off + i as u64);
        }
    }
    pub fn bytes(&self, off: u64, len: usize) -> Vec<u8> {
        let mut v = vec![0u8; len];
        self.fill(off, &mut v);
        v
    }
    pub fn name(&self) -> String {
        match self {
            Stream::Mixed => "S0-mixed".into(),
            Stream::Alpha => "S1-alpha".into(),
            Stream::Zeros => "S2-zeros".into(),
            Stream::A40e => "S3-a40e".into(),
            Stream::Seeded(s) => format!("S4-seed{}", s),
            Stream::Runs => "S5-runs".into(),
        }
    }
    pub fn from_name(n: &str) -> Option<Stream> {
        match n {
            "S0-mixed" => Some(Stream::Mixed),
            "S1-alpha" => Some(Stream::Alpha),
            "S2-zeros" => Some(Stream::Zeros),
            "S3-a40e" => Some(Stream::A40e),
            "S5-runs" => Some(Stream::Runs),
            _ => n.strip_prefix("S4-seed").and_then(|s| s.parse().ok()).map(Stream::Seeded),
        }
    }
    pub fn all(seed: u64) -> Vec<Stream> {
        vec![
            Stream::Mixed,
            Stream::Alpha,
            Stream::Zeros,
            Stream::A40e,
            Stream::Seeded(seed),
            Stream::Runs,
        ]
    }
}
