//! Reference model of TLSH — boring on purpose.
//!
//! Nothing in this module calls into the code under test.  It is byte-at-a-time,
//! uses full sorts and linear scans, and has its own pinned tables.

pub mod kat;
pub mod tables;

use tables::{MAX_LEN, TOPVAL, V_TABLE};

/// Bucket kinds.
#[derive(Debug, Clone, Copy, PartialEq, Eq, Hash)]
pub enum Kind {
    B48,
    B128,
    B256,
}

impl Kind {
    pub fn nb(self) -> usize {
        match self {
            Kind::B48 => 48,
            Kind::B128 => 128,
            Kind::B256 => 256,
        }
    }
    pub fn from_nb(nb: usize) -> Kind {
        match nb {
            48 => Kind::B48,
            128 => Kind::B128,
            256 => Kind::B256,
            _ => panic!("bad bucket count"),
        }
    }
    pub fn min_len(self) -> u64 {
        match self {
            Kind::B48 => 10,
            _ => 50,
        }
    }
    pub fn min_len_conservative(self) -> u64 {
        match self {
            Kind::B48 => 10,
            _ => 128,
        }
    }
    pub fn min_nonzero(self) -> usize {
        match self {
            Kind::B48 => 18,
            Kind::B128 => 65,
            Kind::B256 => 129,
        }
    }
}

/// Four sequential Pearson look-ups from the zero state.
pub fn ref_bmap256(salt: u8, i: u8, j: u8, k: u8) -> u8 {
    let mut h = V_TABLE[salt as usize];
    h = V_TABLE[(h ^ i) as usize];
    h = V_TABLE[(h ^ j) as usize];
    V_TABLE[(h ^ k) as usize]
}

/// The 48-bucket mapping: the last look-up is folded.
pub fn ref_bmap48(salt: u8, i: u8, j: u8, k: u8) -> u8 {
    let x = ref_bmap256(salt, i, j, k);
    if x >= 240 {
        48
    } else {
        x % 48
    }
}

pub fn ref_bmap(kind: Kind, salt: u8, i: u8, j: u8, k: u8) -> u8 {
    match kind {
        Kind::B48 => ref_bmap48(salt, i, j, k),
        _ => ref_bmap256(salt, i, j, k),
    }
}

/// Generator options (all 32 settings).
#[derive(Debug, Clone, Copy, PartialEq, Eq, Hash)]
pub struct Opts {
    pub conservative: bool,
    pub pure_int: bool,
    pub allow_small: bool,
    pub allow_half: bool,
    pub allow_quarter: bool,
}

impl Opts {
    pub const COUNT: usize = 32;
    pub fn from_index(i: usize) -> Opts {
        Opts {
            conservative: i & 1 != 0,
            pure_int: i & 2 != 0,
            allow_small: i & 4 != 0,
            allow_half: i & 8 != 0,
            allow_quarter: i & 16 != 0,
        }
    }
    pub fn index(&self) -> usize {
        (self.conservative as usize)
            | (self.pure_int as usize) << 1
            | (self.allow_small as usize) << 2
            | (self.allow_half as usize) << 3
            | (self.allow_quarter as usize) << 4
    }
    pub fn all() -> impl Iterator<Item = Opts> {
        (0..Self::COUNT).map(Opts::from_index)
    }
    /// `self <= other` in the permissiveness order (same Q-ratio mode).
    pub fn le(&self, other: &Opts) -> bool {
        self.pure_int == other.pure_int
            // optimistic is more permissive than conservative
            && (self.conservative || !other.conservative)
            && (!self.allow_small || other.allow_small)
            // QUARTER implies HALF
            && (!(self.allow_half || self.allow_quarter) || (other.allow_half || other.allow_quarter))
            && (!self.allow_quarter || other.allow_quarter)
    }
    pub fn describe(&self) -> String {
        format!(
            "{}{}{}{}{}",
            if self.conservative { "C" } else { "O" },
            if self.pure_int { "i" } else { "f" },
            if self.allow_small { "s" } else { "-" },
            if self.allow_half { "h" } else { "-" },
            if self.allow_quarter { "q" } else { "-" },
        )
    }
}

#[derive(Debug, Clone, Copy, PartialEq, Eq, Hash)]
pub enum RefErr {
    TooLarge,
    TooSmall,
    HalfEmpty,
    ThreeQuarterEmpty,
}

/// Length class.
#[derive(Debug, Clone, Copy, PartialEq, Eq, Hash)]
pub enum RefValidity {
    TooSmall,
    ValidWhenOptimistic,
    Valid,
    TooLarge,
}

pub fn ref_validity(kind: Kind, n: u64) -> RefValidity {
    if n > MAX_LEN {
        RefValidity::TooLarge
    } else if n < kind.min_len() {
        RefValidity::TooSmall
    } else if n < kind.min_len_conservative() {
        RefValidity::ValidWhenOptimistic
    } else {
        RefValidity::Valid
    }
}

/// Whether finalize must report a length error, and which one.
pub fn ref_length_error(kind: Kind, n: u64, o: &Opts) -> Option<RefErr> {
    match ref_validity(kind, n) {
        RefValidity::TooLarge => Some(RefErr::TooLarge),
        RefValidity::TooSmall => {
            if o.allow_small {
                None
            } else {
                Some(RefErr::TooSmall)
            }
        }
        RefValidity::ValidWhenOptimistic => {
            if o.conservative && !o.allow_small {
                Some(RefErr::TooSmall)
            } else {
                None
            }
        }
        RefValidity::Valid => None,
    }
}

/// Length code by linear scan of the pinned table.
pub fn ref_length_code(n: u64) -> Option<u8> {
    if n > MAX_LEN {
        return None;
    }
    for (i, &top) in TOPVAL.iter().enumerate() {
        if n <= top as u64 {
            return Some(i as u8);
        }
    }
    None
}

/// The inclusive range of lengths for a code.
pub fn ref_length_range(code: u8) -> Option<(u64, u64)> {
    let c = code as usize;
    if c >= TOPVAL.len() {
        return None;
    }
    let lo = if c == 0 { 0 } else { TOPVAL[c - 1] as u64 + 1 };
    Some((lo, TOPVAL[c] as u64))
}

/// A reference hash value.
#[derive(Debug, Clone, PartialEq, Eq, Hash)]
pub struct RefHash {
    pub cksum: Vec<u8>,
    pub lcode: u8,
    pub q1ratio: u8,
    pub q2ratio: u8,
    pub body: Vec<u8>,
}

impl RefHash {
    /// Binary form: checksum, length code, Q-ratio byte (Q2 high), body.
    pub fn to_bytes(&self) -> Vec<u8> {
        let mut v = self.cksum.clone();
        v.push(self.lcode);
        v.push((self.q2ratio << 4) | (self.q1ratio & 0x0f));
        v.extend_from_slice(&self.body);
        v
    }
}

/// Byte-at-a-time reference generator.
#[derive(Debug, Clone, PartialEq, Eq, Hash)]
pub struct RefGen {
    pub kind: Kind,
    pub ck: usize,
    pub buckets: [u32; 256],
    pub cksum: [u8; 3],
    /// The last (up to) four bytes seen, oldest first.
    pub last4: [u8; 4],
    pub n: u64,
}

impl RefGen {
    pub fn new(kind: Kind, ck: usize) -> Self {
        assert!(ck == 1 || (ck == 3 && kind != Kind::B48));
        RefGen {
            kind,
            ck,
            buckets: [0; 256],
            cksum: [0; 3],
            last4: [0; 4],
            n: 0,
        }
    }

    pub fn feed(&mut self, b4: u8) {
        if self.n >= 4 {
            let [b0, b1, b2, b3] = self.last4;
            // checksum over (current, previous)
            self.cksum[0] = ref_bmap(self.kind, 0, b4, b3, self.cksum[0]);
            if self.ck == 3 {
                self.cksum[1] = ref_bmap256(self.cksum[0], b4, b3, self.cksum[1]);
                self.cksum[2] = ref_bmap256(self.cksum[1], b4, b3, self.cksum[2]);
            }
            let triplets: [(u8, u8, u8); 6] = [
                (2, b3, b2),
                (3, b3, b1),
                (5, b2, b1),
                (7, b2, b0),
                (11, b3, b0),
                (13, b1, b0),
            ];
            for (salt, x, y) in triplets {
                let idx = ref_bmap(self.kind, salt, b4, x, y) as usize;
                self.buckets[idx] = self.buckets[idx].wrapping_add(1);
            }
            self.last4 = [b1, b2, b3, b4];
        } else {
            self.last4[self.n as usize] = b4;
        }
        self.n += 1;
    }

    pub fn feed_all(&mut self, data: &[u8]) {
        for &b in data {
            self.feed(b);
        }
    }

    pub fn finalize(&self, o: &Opts) -> Result<RefHash, RefErr> {
        ref_finalize_parts(
            self.kind,
            self.ck,
            &self.buckets,
            &self.cksum,
            self.n,
            o,
        )
    }
}

/// Q ratio, integer formula.
pub fn ref_qratio_int(q: u32, q3: u32) -> u8 {
    ((q as u64 * 100 / q3 as u64) % 16) as u8
}

/// Q ratio, legacy float formula (on the u32-wrapped product, in f32).
pub fn ref_qratio_f32(q: u32, q3: u32) -> u8 {
    let prod = q.wrapping_mul(100);
    let r = prod as f32 / q3 as f32;
    ((r as u32) % 16) as u8
}

pub fn ref_finalize_parts(
    kind: Kind,
    ck: usize,
    buckets: &[u32; 256],
    cksum: &[u8; 3],
    n: u64,
    o: &Opts,
) -> Result<RefHash, RefErr> {
    if let Some(e) = ref_length_error(kind, n, o) {
        return Err(e);
    }
    let lcode = ref_length_code(n).expect("n <= MAX here");
    let nb = kind.nb();
    let mut sorted: Vec<u32> = buckets[..nb].to_vec();
    sorted.sort();
    let mut q1 = sorted[nb / 4 - 1];
    let mut q2 = sorted[nb / 2 - 1];
    let mut q3 = sorted[3 * nb / 4 - 1];
    if q3 == 0 {
        if !o.allow_quarter {
            return Err(RefErr::ThreeQuarterEmpty);
        }
        q1 = 1;
        q2 = 1;
        q3 = 1;
    }
    let nonzero = buckets[..nb].iter().filter(|&&x| x != 0).count();
    if nonzero < kind.min_nonzero() && !(o.allow_half || o.allow_quarter) {
        return Err(RefErr::HalfEmpty);
    }
    let (q1ratio, q2ratio) = if o.pure_int {
        (ref_qratio_int(q1, q3), ref_qratio_int(q2, q3))
    } else {
        (ref_qratio_f32(q1, q3), ref_qratio_f32(q2, q3))
    };
    let blen = nb / 4;
    let mut body = vec![0u8; blen];
    for i in 0..nb {
        let v = buckets[i];
        let d: u8 = if v > q3 {
            3
        } else if v > q2 {
            2
        } else if v > q1 {
            1
        } else {
            0
        };
        body[blen - 1 - i / 4] |= d << (2 * (i % 4));
    }
    Ok(RefHash {
        cksum: cksum[..ck].to_vec(),
        lcode,
        q1ratio,
        q2ratio,
        body,
    })
}

// ---------------------------------------------------------------------------
// Distances

pub fn ring_distance(x: u32, y: u32, n: u32) -> u32 {
    let d = if x >= y { x - y } else { y - x };
    d.min(n - d)
}

pub fn ref_dist_qratio_nibble(x: u8, y: u8) -> u32 {
    let d = ring_distance(x as u32, y as u32, 16);
    if d <= 1 {
        d
    } else {
        (d - 1) * 12
    }
}

pub fn ref_dist_qratios(x: u8, y: u8) -> u32 {
    ref_dist_qratio_nibble(x & 15, y & 15) + ref_dist_qratio_nibble(x >> 4, y >> 4)
}

pub fn ref_dist_length(x: u8, y: u8) -> u32 {
    let d = ring_distance(x as u32, y as u32, 256);
    if d <= 1 {
        d
    } else {
        d * 12
    }
}

pub fn ref_dist_checksum(x: &[u8], y: &[u8]) -> u32 {
    x.iter().zip(y.iter()).filter(|(a, b)| a != b).count() as u32
}

pub fn ref_dist_body(x: &[u8], y: &[u8]) -> u32 {
    let mut total = 0;
    for (&a, &b) in x.iter().zip(y.iter()) {
        for s in 0..4 {
            let da = ((a >> (2 * s)) & 3) as i32;
            let db = ((b >> (2 * s)) & 3) as i32;
            let d = (da - db).unsigned_abs();
            total += if d == 3 { 6 } else { d };
        }
    }
    total
}

/// Whole-hash distance on binary forms (`ck` checksum bytes).
pub fn ref_distance(a: &[u8], b: &[u8], ck: usize, with_length: bool) -> u32 {
    assert_eq!(a.len(), b.len());
    let mut d = ref_dist_checksum(&a[..ck], &b[..ck]);
    if with_length {
        d += ref_dist_length(a[ck], b[ck]);
    }
    d += ref_dist_qratios(a[ck + 1], b[ck + 1]);
    d += ref_dist_body(&a[ck + 2..], &b[ck + 2..]);
    d
}

pub fn ref_max_distance(ck: usize, body_len: usize, with_length: bool) -> u32 {
    (body_len as u32) * 4 * 6 + ck as u32 + 2 * 7 * 12 + if with_length { 128 * 12 } else { 0 }
}

// ---------------------------------------------------------------------------
// Hex text

const HEXU: &[u8; 16] = b"0123456789ABCDEF";

/// Format the binary form as TLSH hex text: header bytes nibble-swapped, body plain.
pub fn ref_hex_format(bytes: &[u8], ck: usize, with_prefix: bool) -> Vec<u8> {
    let mut out = Vec::new();
    if with_prefix {
        out.extend_from_slice(b"T1");
    }
    for (i, &b) in bytes.iter().enumerate() {
        if i < ck + 2 {
            out.push(HEXU[(b & 15) as usize]);
            out.push(HEXU[(b >> 4) as usize]);
        } else {
            out.push(HEXU[(b >> 4) as usize]);
            out.push(HEXU[(b & 15) as usize]);
        }
    }
    out
}

fn hexval(c: u8) -> Option<u8> {
    match c {
        b'0'..=b'9' => Some(c - b'0'),
        b'a'..=b'f' => Some(c - b'a' + 10),
        b'A'..=b'F' => Some(c - b'A' + 10),
        _ => None,
    }
}

#[derive(Debug, Clone, Copy, PartialEq, Eq, Hash)]
pub enum RefPrefix {
    Auto,
    Empty,
    WithVersion,
}

#[derive(Debug, Clone, Copy, PartialEq, Eq, Hash, PartialOrd, Ord)]
pub enum RefParseErr {
    LengthIsTooLarge,
    InvalidPrefix,
    InvalidCharacter,
    InvalidStringLength,
    InvalidChecksum,
}

/// Result of the reference hex parser: the value, or the *set* of errors that
/// apply to the input.  `InvalidStringLength` is in the set iff the length is
/// wrong, and then it is the only member.
#[derive(Debug, Clone, PartialEq, Eq)]
pub enum RefParse {
    Ok(Vec<u8>),
    Err(Vec<RefParseErr>),
}

/// `size` = binary size, `ck` = checksum bytes, `strict` = strict-parser rules,
/// `kind48` = 48-bucket variant (checksum byte must be <= 48 when strict).
pub fn ref_hex_parse(
    s: &[u8],
    mode: RefPrefix,
    size: usize,
    ck: usize,
    strict: bool,
    kind48: bool,
) -> RefParse {
    let plain = size * 2;
    let with_prefix = match mode {
        RefPrefix::Auto => {
            if s.len() == plain {
                false
            } else if s.len() == plain + 2 {
                true
            } else {
                return RefParse::Err(vec![RefParseErr::InvalidStringLength]);
            }
        }
        RefPrefix::Empty => {
            if s.len() != plain {
                return RefParse::Err(vec![RefParseErr::InvalidStringLength]);
            }
            false
        }
        RefPrefix::WithVersion => {
            if s.len() != plain + 2 {
                return RefParse::Err(vec![RefParseErr::InvalidStringLength]);
            }
            true
        }
    };
    let mut errs = Vec::new();
    let digits = if with_prefix {
        if &s[..2] != b"T1" {
            errs.push(RefParseErr::InvalidPrefix);
        }
        &s[2..]
    } else {
        s
    };
    let mut bytes = vec![0u8; size];
    let mut bad_char = false;
    // Which header parts decode cleanly (needed for the strict rules).
    let mut bad_in_byte = vec![false; size];
    for i in 0..size {
        let (c0, c1) = (digits[2 * i], digits[2 * i + 1]);
        match (hexval(c0), hexval(c1)) {
            (Some(a), Some(b)) => {
                bytes[i] = if i < ck + 2 { (b << 4) | a } else { (a << 4) | b };
            }
            _ => {
                bad_char = true;
                bad_in_byte[i] = true;
            }
        }
    }
    if bad_char {
        errs.push(RefParseErr::InvalidCharacter);
    }
    if strict {
        // A strict error applies only when the part it looks at decodes.
        if kind48 && ck == 1 && !bad_in_byte[0] && bytes[0] > 48 {
            errs.push(RefParseErr::InvalidChecksum);
        }
        if !bad_in_byte[ck] && bytes[ck] >= 170 {
            errs.push(RefParseErr::LengthIsTooLarge);
        }
    }
    if errs.is_empty() {
        RefParse::Ok(bytes)
    } else {
        errs.sort();
        RefParse::Err(errs)
    }
}

/// Strict validity of a binary form.
pub fn ref_strict_errors(bytes: &[u8], ck: usize, kind48: bool) -> Vec<RefParseErr> {
    let mut errs = Vec::new();
    if kind48 && ck == 1 && bytes[0] > 48 {
        errs.push(RefParseErr::InvalidChecksum);
    }
    if bytes[ck] >= 170 {
        errs.push(RefParseErr::LengthIsTooLarge);
    }
    errs.sort();
    errs
}
