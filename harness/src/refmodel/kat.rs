//! Known-answer self test binding the reference model to the official TLSH
//! algorithm.  Only the reference is exercised here; a failure is a machinery
//! error (exit 2), never a verdict about the code under test.

use super::tables::{TOPVAL, V_TABLE};
use super::*;

pub const LOREM_IPSUM: &[u8] = b"Lorem ipsum dolor sit amet, consectetur \
adipiscing elit, sed do eiusmod tempor incididunt ut labore et dolore magna \
aliqua. Ut enim ad minim veniam, quis nostrud exercitation ullamco laboris nisi \
ut aliquip ex ea commodo consequat. Duis aute irure dolor in reprehenderit in \
voluptate velit esse cillum dolore eu fugiat nulla pariatur. Excepteur sint \
occaecat cupidatat non proident, sunt in culpa qui officia deserunt mollit anim \
id est laborum.";

pub struct Kat {
    pub name: &'static str,
    pub data: Vec<u8>,
    pub kind: Kind,
    pub ck: usize,
    pub opts: Opts,
    pub expected: &'static str,
}

fn default_opts() -> Opts {
    Opts {
        conservative: false,
        pure_int: false,
        allow_small: false,
        allow_half: false,
        allow_quarter: false,
    }
}

pub fn timing_vector_1() -> Vec<u8> {
    (b'A'..=b'Z').cycle().take(1_000_000 - 1).chain([0]).collect()
}

pub fn timing_vector_2() -> Vec<u8> {
    (b' '..(b' ' + 90)).cycle().take(1_000_000 - 1).chain([0]).collect()
}

pub fn smallexe() -> Vec<u8> {
    let path = concat!(env!("CARGO_MANIFEST_DIR"), "/../golden/smallexe.exe");
    std::fs::read(path).expect("golden/smallexe.exe")
}

pub fn kats() -> Vec<Kat> {
    let d = default_opts();
    let mut v = vec![
        Kat { name: "lorem/Short", data: LOREM_IPSUM.to_vec(), kind: Kind::B48, ck: 1, opts: d,
              expected: "T1E1F029B2FCAA4D5FE04846105FA5E2" },
        Kat { name: "lorem/Normal", data: LOREM_IPSUM.to_vec(), kind: Kind::B128, ck: 1, opts: d,
              expected: "T1DCF0DC36520C1B007FD32079B226559FD998A0200725E75AFCEAC99F5881184A4B1AA2" },
        Kat { name: "lorem/NormalLC", data: LOREM_IPSUM.to_vec(), kind: Kind::B128, ck: 3, opts: d,
              expected: "T1DC33D4F0DC36520C1B007FD32079B226559FD998A0200725E75AFCEAC99F5881184A4B1AA2" },
        Kat { name: "lorem/Long", data: LOREM_IPSUM.to_vec(), kind: Kind::B256, ck: 1, opts: d,
              expected: "T1DCF0DCA405C02AF1D4860CA5894A05301D60E9915198060A7044C608A1E89A11BD2B2836520C1B007FD32079B226559FD998A0200725E75AFCEAC99F5881184A4B1AA2" },
        Kat { name: "lorem/LongLC", data: LOREM_IPSUM.to_vec(), kind: Kind::B256, ck: 3, opts: d,
              expected: "T1DC33D4F0DCA405C02AF1D4860CA5894A05301D60E9915198060A7044C608A1E89A11BD2B2836520C1B007FD32079B226559FD998A0200725E75AFCEAC99F5881184A4B1AA2" },
        Kat { name: "hello/Short", data: b"Hello, World!".to_vec(), kind: Kind::B48, ck: 1, opts: d,
              expected: "T1E16004017D3551777571D55C005CC5" },
        Kat { name: "timing1/Normal", data: timing_vector_1(), kind: Kind::B128, ck: 1, opts: d,
              expected: "T1A12500088C838B0A0F0EC3C0ACAB82F3B8228B0308CFA302338C0F0AE2C24F28000008" },
        Kat { name: "timing2/Normal", data: timing_vector_2(), kind: Kind::B128, ck: 1, opts: d,
              expected: "T129251210F4C18D0A5F0661C4F64D905B585253A3024F022323E5074CC5601904886D1C" },
        Kat { name: "smallexe/Short", data: smallexe(), kind: Kind::B48, ck: 1, opts: d,
              expected: "T140E0483A5DFC1B073D86A4A2C55A43" },
        Kat { name: "smallexe/Normal", data: smallexe(), kind: Kind::B128, ck: 1, opts: d,
              expected: "T1FFE04C037F895471D42E5530499E47473757E5E456D28B13ED1944654C8534C7CE9E01" },
        Kat { name: "lovak50/Normal", data: b"Lovak won the squad prize cup for sixty big jumps.".to_vec(),
              kind: Kind::B128, ck: 1, opts: d,
              expected: "T14A90024954691E114404124180D942C1450F8423775ADE1510211420456593621A8173" },
    ];
    // Vectors for the permissive (fast-tlsh specific) options, from the crate documentation.
    v.push(Kat { name: "fox44/Normal/allow_small", data: b"The quick brown fox jumps over the lazy dog.".to_vec(),
                 kind: Kind::B128, ck: 1, opts: Opts { allow_small: true, ..d },
                 expected: "T19E90024A21181294648A1888438D94B292C8C510612114116430600218082219C98551" });
    v.push(Kat { name: "abc20x/Normal/allow_half", data: b"ABCDEFGHIJKLMNOPQRSTABCDEFGHIJKLMNOPQRSTABCDEFGHIJ".to_vec(),
                 kind: Kind::B128, ck: 1, opts: Opts { allow_half: true, ..d },
                 expected: "T1609000080C838F2A0F2C82C0ECA282F33808838B00CE0300228C2F80C8800E08800000" });
    v.push(Kat { name: "abcde/Normal/allow_quarter", data: b"ABCDEABCDEABCDEABCDEABCDEABCDEABCDEABCDEABCDEABCDE".to_vec(),
                 kind: Kind::B128, ck: 1, opts: Opts { allow_quarter: true, ..d },
                 expected: "T14590440C330003C00C0033000000C300F000C00300C030000000C3000000000000C000" });
    v
}

/// Runs the reference self test; returns the number of checks or an error.
pub fn self_test() -> Result<usize, String> {
    let mut checks = 0usize;
    // Table sanity.
    let mut seen = [false; 256];
    for &v in V_TABLE.iter() {
        if seen[v as usize] {
            return Err("V_TABLE is not a permutation".into());
        }
        seen[v as usize] = true;
    }
    checks += 1;
    for w in TOPVAL.windows(2) {
        if w[0] >= w[1] {
            return Err("TOPVAL is not strictly increasing".into());
        }
    }
    if TOPVAL[169] as u64 != MAX_LEN {
        return Err("TOPVAL[169] != MAX".into());
    }
    checks += 1;
    // Closed forms for the first 22 entries; ratio law for the rest.
    for i in 0..16usize {
        let v = (1.5f64).powi(i as i32 + 1).floor() as u32;
        if v != TOPVAL[i] {
            return Err(format!("TOPVAL[{i}] != floor(1.5^(i+1))"));
        }
    }
    for i in 16..22usize {
        let v = (657.0f64 * (1.3f64).powi(i as i32 - 16 + 1)).floor() as u32;
        if v != TOPVAL[i] {
            return Err(format!("TOPVAL[{i}] != floor(657*1.3^k)"));
        }
    }
    for i in 22..169usize {
        let r = TOPVAL[i + 1] as f64 / TOPVAL[i] as f64;
        if (r / 1.1 - 1.0).abs() > 3e-4 {
            return Err(format!("TOPVAL ratio law broken at {i}: {r}"));
        }
    }
    checks += 3;
    // Known answers.
    for k in kats() {
        let mut g = RefGen::new(k.kind, k.ck);
        g.feed_all(&k.data);
        let size = k.ck + 2 + k.kind.nb() / 4;
        let expected = match ref_hex_parse(
            k.expected.as_bytes(),
            RefPrefix::WithVersion,
            size,
            k.ck,
            true,
            k.kind == Kind::B48,
        ) {
            RefParse::Ok(b) => b,
            RefParse::Err(e) => return Err(format!("KAT {}: expected string rejected {:?}", k.name, e)),
        };
        match g.finalize(&k.opts) {
            Ok(h) => {
                if h.to_bytes() != expected {
                    return Err(format!(
                        "KAT {}: reference gives {} expected {}",
                        k.name,
                        String::from_utf8_lossy(&ref_hex_format(&h.to_bytes(), k.ck, true)),
                        k.expected
                    ));
                }
                if ref_hex_format(&h.to_bytes(), k.ck, true) != k.expected.as_bytes() {
                    return Err(format!("KAT {}: ref_hex_format mismatch", k.name));
                }
                // On these vectors both Q-ratio formulas agree (small counts).
                let h2 = g.finalize(&Opts { pure_int: !k.opts.pure_int, ..k.opts });
                if h2.as_ref() != Ok(&h) {
                    return Err(format!("KAT {}: int/float Q-ratio formulas disagree", k.name));
                }
            }
            Err(e) => return Err(format!("KAT {}: reference rejects with {:?}", k.name, e)),
        }
        checks += 1;
    }
    // Documented rejections.
    {
        let d = default_opts();
        let mut g = RefGen::new(Kind::B128, 1);
        g.feed_all(b"The quick brown fox jumps over the lazy dog.");
        if g.finalize(&d) != Err(RefErr::TooSmall) {
            return Err("fox44 default must be TooSmall".into());
        }
        let mut g = RefGen::new(Kind::B128, 1);
        g.feed_all(b"Lovak won the squad prize cup for sixty big jumps.");
        if g.finalize(&Opts { conservative: true, ..d }) != Err(RefErr::TooSmall) {
            return Err("lovak50 conservative must be TooSmall".into());
        }
        let mut g = RefGen::new(Kind::B128, 1);
        g.feed_all(b"ABCDEFGHIJKLMNOPQRSTABCDEFGHIJKLMNOPQRSTABCDEFGHIJ");
        if g.finalize(&d) != Err(RefErr::HalfEmpty) {
            return Err("abc20x default must be HalfEmpty".into());
        }
        let mut g = RefGen::new(Kind::B128, 1);
        g.feed_all(b"ABCDEABCDEABCDEABCDEABCDEABCDEABCDEABCDEABCDEABCDE");
        if g.finalize(&Opts { allow_half: true, ..d }) != Err(RefErr::ThreeQuarterEmpty) {
            return Err("abcde allow_half must be ThreeQuarterEmpty".into());
        }
        checks += 4;
    }
    // Documented distances.
    let dist = |a: &str, b: &str, size: usize, ck: usize, kind48: bool| -> Result<u32, String> {
        let pa = ref_hex_parse(a.as_bytes(), RefPrefix::Auto, size, ck, false, kind48);
        let pb = ref_hex_parse(b.as_bytes(), RefPrefix::Auto, size, ck, false, kind48);
        match (pa, pb) {
            (RefParse::Ok(x), RefParse::Ok(y)) => Ok(ref_distance(&x, &y, ck, true)),
            _ => Err("distance KAT strings rejected".into()),
        }
    };
    if dist(
        "T1A12500088C838B0A0F0EC3C0ACAB82F3B8228B0308CFA302338C0F0AE2C24F28000008",
        "T129251210F4C18D0A5F0661C4F64D905B585253A3024F022323E5074CC5601904886D1C",
        35, 1, false)? != 138
    {
        return Err("distance KAT 138 failed".into());
    }
    if dist(
        "T12AD5BE86FFE41D17CC268876A9AE472077B2B0032716DBAF1849A7647DDB7C0DF16488",
        "T1EDD5BE96FFE41D1BCC268C7699AE4720B7B2A0032716DBAF1848A7647DD77C0DF16488",
        35, 1, false)? != 9
    {
        return Err("distance KAT 9 failed".into());
    }
    if dist("T140D5F17F44F8AB007AE2AC46E515DC", "T140D5F17F44FCAB007AE2A846E515DC", 15, 1, true)? != 2 {
        return Err("distance KAT 2 failed".into());
    }
    checks += 3;
    // max distance constants (documented: Normal default 0..=2473)
    if ref_max_distance(1, 32, true) != 2473 {
        return Err("max distance (Normal) != 2473".into());
    }
    checks += 1;
    Ok(checks)
}
