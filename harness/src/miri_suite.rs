//! Interpreter-monitored enumeration (C17): a fixed, small list of work items covering every
//! public operation, meant to be executed under Miri (`cargo +nightly miri run`), which is
//! the monitor: any undefined behaviour on one of these executions (out-of-bounds or
//! uninitialised access, `unreachable_unchecked` reached, invalid value, misaligned SIMD
//! load, data race) aborts the interpreter with a diagnostic that the driver turns into a
//! violation.  The reference model still judges every result, so a wrong answer is reported
//! too.  The list is enumerated exhaustively within its stated bounds; the driver runs it in
//! `n` shards (`item index mod n`), one interpreter process per shard.
//!
//! The same list also runs natively (`vcheck miri-suite` in any build): that is how the
//! driver proves the list itself is sound before paying for the interpreter.

use crate::checks::codec::*;
use crate::checks::common::*;
use crate::readers::*;
use crate::streams::Stream;
use crate::variant::*;
use serde_json::{json, Value};
use std::collections::HashMap;
use std::sync::Mutex;

pub struct Item {
    pub name: String,
    pub kind: &'static str,
    /// part of the small selection that the quick tier runs under the interpreter (kind selector "@quick")
    pub quick: bool,
    pub run: Box<dyn Fn() -> Result<(), String>>,
}

fn push(items: &mut Vec<Item>, kind: &'static str, name: String, f: impl Fn() -> Result<(), String> + 'static) {
    // quick selection: per variant one header and two body positions of the one-deviation parse (error paths of the
    // SIMD and scalar decoders), one generation, one binary value, one store, one split, one stream script
    let quick = name.ends_with("/parse-dev1/base2/pos3")
        || name.ends_with("/parse-dev1/base2/pos17")
        || name.ends_with("/parse-dev1/base2/pos29")
        || name.ends_with("/gen-prefix/S0-mixed/64")
        || name.ends_with("/binary-dev1/pos0")
        || name.ends_with("/store/form1")
        || name.ends_with("/split/13/[3, 4]")
        || name.ends_with("/stream/70/0");
    items.push(Item { name, kind, quick, run: Box::new(f) });
}

const GEN_LENGTHS: [usize; 22] = [0, 1, 2, 3, 4, 5, 6, 7, 8, 9, 10, 11, 49, 50, 51, 63, 64, 65, 127, 128, 255, 257];
const PARSE_CLASSES: [u8; 13] = [b'0', b'9', b'A', b'F', b'a', b'f', b'G', b'@', b'+', b' ', 0x00, 0x80, 0xff];

fn per_variant<V: Variant>(items: &mut Vec<Item>, depth: usize) {
    let v = V::NAME;
    // --- generator: whole inputs, every option setting, judged by the reference model
    let max_short = if depth >= 2 { 6 } else { 4 };
    for len in 0..=max_short {
        for bits in 0..(1u32 << len) {
            let data: Vec<u8> = (0..len).map(|i| if bits >> i & 1 == 1 { 0xff } else { 0x00 }).collect();
            push(items, "generate", format!("{v}/gen-short/{}", hex(&data)), move || {
                crate::checks::c01::judge_input::<V>(&data).map(|_| ())
            });
        }
    }
    for (si, st) in [Stream::Mixed, Stream::A40e].into_iter().enumerate() {
        for &n in GEN_LENGTHS.iter() {
            if depth < 2 && si == 1 && n > 64 {
                continue;
            }
            push(items, "generate", format!("{v}/gen-prefix/{}/{n}", st.name()), move || {
                let data = st.bytes(0, n);
                let outs = crate::checks::c01::judge_input::<V>(&data)?;
                // every hash that comes out goes through the codecs as well
                for o in outs.iter() {
                    if let Ok(b) = o {
                        judge_format::<V>(b)?;
                        judge_binary::<V>(b)?;
                        break;
                    }
                }
                Ok(())
            });
        }
    }
    // --- generator: chunking, clone, second finalize
    for &(n, ref cuts) in [(13usize, vec![1usize]), (13, vec![3, 4]), (13, vec![4, 8, 12]), (70, vec![1, 5]), (70, vec![3, 67]), (140, vec![64]), (140, vec![65, 129]), (300, vec![2, 150])].iter() {
        let cuts = cuts.clone();
        push(items, "generate", format!("{v}/split/{n}/{cuts:?}"), move || {
            let data = Stream::Mixed.bytes(0, n);
            crate::checks::c03::judge_split::<V>(&data, &cuts).map(|_| ())
        });
    }
    // --- text parser: one deviation at every position, 13 character classes, all modes and entry points
    let bases = base_strings::<V>();
    for (bi, base) in bases.iter().enumerate() {
        if depth < 2 && bi != 2 {
            continue;
        }
        for pos in 0..base.len() {
            let base = base.clone();
            push(items, "parse", format!("{v}/parse-dev1/base{bi}/pos{pos}"), move || {
                for &c in PARSE_CLASSES.iter() {
                    let mut s = base.clone();
                    s[pos] = c;
                    judge_parse::<V>(&s)?;
                    judge_canonical::<V>(&s)?;
                }
                Ok(())
            });
        }
    }
    // every length 0..=STRLEN+8 and twice the length
    {
        let base = bases[2].clone();
        let lens: Vec<usize> = (0..=V::STRLEN + 8).chain([2 * V::STRLEN - 4, 2 * V::STRLEN - 2, 2 * V::STRLEN]).collect();
        for chunk in lens.chunks(8) {
            let chunk = chunk.to_vec();
            let base = base.clone();
            push(items, "parse", format!("{v}/parse-lengths/{}..", chunk[0]), move || {
                for &l in &chunk {
                    let s: Vec<u8> = (0..l).map(|i| base[i % base.len()]).collect();
                    judge_parse::<V>(&s)?;
                    let s2: Vec<u8> = (0..l).map(|i| base[2 + i % (base.len() - 2)]).collect();
                    judge_parse::<V>(&s2)?;
                }
                Ok(())
            });
        }
    }
    // --- binary codec and accessors: one-byte deviations with 5 values on 2 backgrounds; slice lengths
    for pos in 0..V::SIZE {
        push(items, "binary", format!("{v}/binary-dev1/pos{pos}"), move || {
            for bg in [0u64, 3] {
                for x in [0x00u64, 0x01, 0x7f, 0x80, 0xff] {
                    let b = value_by_index::<V>((pos as u64) * 1024 + bg * 256 + x);
                    if constructible::<V>(&b) {
                        judge_binary::<V>(&b)?;
                        judge_format::<V>(&b)?;
                    }
                }
            }
            Ok(())
        });
    }
    push(items, "binary", format!("{v}/binary-slice-lengths"), move || {
        for l in 0..=2 * V::SIZE + 1 {
            judge_bad_slice_len::<V>(l)?;
        }
        Ok(())
    });
    // --- serialisers into caller buffers: every length 0..=N+40, three forms
    for form in 0..3usize {
        push(items, "store", format!("{v}/store/form{form}"), move || {
            let n = [V::SIZE, V::STRLEN - 2, V::STRLEN][form];
            let val = value_by_index::<V>(3 * 256 + 0x11);
            let val = if constructible::<V>(&val) { val } else { value_by_index::<V>(0) };
            for l in (0..=n + 40).chain([n + 64, n + 100, n + 128]) {
                judge_buffer::<V>(&val, form, l, 0x21)?;
            }
            Ok(())
        });
    }
    // --- distances through the public API (dispatch), pool of 6 values, all ordered pairs, both modes
    push(items, "distance", format!("{v}/distance-pool"), move || {
        let pool: Vec<Vec<u8>> = [0u64, 255, 2 * 256 + 0x5a, 3 * 256 + 0x33, (V::SIZE as u64 - 1) * 1024 + 3 * 256 + 0xe4, (V::SIZE as u64 / 2) * 1024 + 256 + 0x1b]
            .iter()
            .map(|&i| value_by_index::<V>(i))
            .filter(|b| constructible::<V>(b))
            .collect();
        for a in &pool {
            for b in &pool {
                crate::checks::c02::judge_pair::<V>(a, b)?;
            }
        }
        Ok(())
    });
    // --- string comparison helpers
    push(items, "strings", format!("{v}/compare-with"), move || {
        let good = String::from_utf8(bases[0].clone()).unwrap();
        let good2 = String::from_utf8(bases[1].clone()).unwrap();
        let mut bad = good.clone();
        bad.replace_range(5..6, "@");
        for l in [&good, &good2, &bad, &good[2..].to_string(), &String::new()] {
            for r in [&good, &good2, &bad, &good2[..good2.len() - 1].to_string()] {
                crate::checks::c13::judge_strings::<V>(l, r)?;
            }
        }
        Ok(())
    });
    // --- stream helper: scripts with <= 1 deviation on three tiny totals, honest readers
    {
        let alphabet = crate::checks::c12::c12_alphabet();
        for total in [0u64, 5, 70] {
            let mut scripts = scripts_with(total, default_steps(total), &alphabet, 0);
            scripts.extend(scripts_with(total, default_steps(total) + 1, &alphabet, 1));
            for (k, chunk) in scripts.chunks(6).enumerate() {
                if depth < 2 && k % 3 != 0 {
                    continue;
                }
                let chunk = chunk.to_vec();
                push(items, "stream", format!("{v}/stream/{total}/{k}"), move || {
                    let cache = Mutex::new(HashMap::new());
                    for sc in &chunk {
                        crate::checks::c12::judge_script::<V>(Stream::Mixed, sc, &cache)?;
                    }
                    Ok(())
                });
            }
        }
        // contract-violating readers: must end in Ok / Err / a clean bounds panic, never in UB
        for sc in crate::checks::c17::lying_scripts(&[0, 70], 1) {
            // a reader that claims exactly one full buffer (deliver-then-misreport once the content is exhausted) makes the helper hash 1 MiB of stale bytes:
            // legal, but minutes of interpreter time; the native lying-reader sections cover it
            if sc.deviations.iter().any(|(_, a)| matches!(a, Ans::DeliverThenMisreport(_))) {
                continue;
            }
            push(items, "stream", format!("{v}/lying-reader/{}", crate::checks::c12::script_key(&sc)), move || {
                let out = crate::checks::c17::run_script_here::<V>(&sc);
                if out == "ok" || out == "err" || crate::checks::c17::clean_reader_panic(&out) {
                    Ok(())
                } else {
                    Err(format!("{} lying reader {:?}: {out}", V::NAME, sc.to_json().to_string()))
                }
            });
        }
    }
}

#[cfg(fast_tlsh_verif)]
fn backend_items(items: &mut Vec<Item>, depth: usize) {
    use crate::checks::c02::{backends_for, judge_body_backends};
    use crate::checks::c07::{agg_backends, judge_agg};
    for len in [12usize, 32, 64] {
        let bes = backends_for(len);
        // one-byte windows: every position x 6 byte pairs x 2 backgrounds, every compiled backend
        for pos in 0..len {
            let bes = bes.clone();
            push(items, "backend", format!("body{len}/window/pos{pos}"), move || {
                for (ba, bb) in [(0x00u8, 0x00u8), (0xff, 0x00), (0x1b, 0xe4)] {
                    for (x, y) in [(0x00u8, 0xffu8), (0xff, 0x00), (0x55, 0xaa), (0x1b, 0xe4), (0x93, 0x93), (0x0f, 0xc3)] {
                        let mut a = vec![ba; len];
                        let mut b = vec![bb; len];
                        a[pos] = x;
                        b[pos] = y;
                        judge_body_backends(&bes, &a, &b)?;
                    }
                }
                Ok(())
            });
        }
        let bes2 = bes.clone();
        push(items, "backend", format!("body{len}/fills"), move || {
            for x in [0x00u8, 0x55, 0xaa, 0xff, 0x1b] {
                for y in [0x00u8, 0x55, 0xaa, 0xff, 0xe4] {
                    judge_body_backends(&bes2, &vec![x; len], &vec![y; len])?;
                }
            }
            Ok(())
        });
    }
    for nb in [48usize, 128, 256] {
        let bes = agg_backends(nb);
        let shapes: usize = if depth >= 2 { 12 } else { 5 };
        for shape in 0..shapes {
            let bes = bes.clone();
            push(items, "backend", format!("agg{nb}/shape{shape}"), move || {
                let mut buckets = vec![0u32; 256];
                for i in 0..256 {
                    buckets[i] = match shape {
                        0 => 0,
                        1 => u32::MAX,
                        2 => i as u32,
                        3 => (255 - i) as u32 * 0x0101_0101,
                        4 => if i % 2 == 0 { 0x8000_0000 } else { 0x7fff_ffff },
                        5 => (i as u32 % 4) * 1000,
                        6 => 1u32 << (i % 32),
                        7 => if i < nb / 2 { 5 } else { 6 },
                        8 => (crate::streams::splitmix64(i as u64) >> 32) as u32,
                        9 => (crate::streams::splitmix64(i as u64 + 7) >> 56) as u32,
                        10 => u32::MAX - i as u32,
                        _ => (i as u32 / 16) * 0x1111,
                    };
                }
                for (q1, q2, q3) in [(0u32, 0u32, 0u32), (1, 2, 3), (5, 5, 6), (0x7fff_ffff, 0x8000_0000, u32::MAX), (u32::MAX, u32::MAX, u32::MAX), (100, 1000, 2000)] {
                    judge_agg(nb, &bes, &buckets, q1, q2, q3)?;
                }
                Ok(())
            });
        }
    }
}

#[cfg(feature = "serde")]
fn serde_items<V: crate::checks::c16::SerdeVariant>(items: &mut Vec<Item>, depth: usize)
where
    V::Hash: serde::Serialize + serde::de::DeserializeOwned,
{
    use crate::checks::c16::*;
    let v = V::NAME;
    let n = events_for::<V>().len();
    let chunk = if depth >= 2 { 16 } else { 48 };
    for human in [true, false] {
        for lo in (0..n).step_by(chunk) {
            push(items, "serde", format!("{v}/serde-events/human={human}/{lo}.."), move || {
                let evs = events_for::<V>();
                for ev in evs[lo..(lo + chunk).min(evs.len())].iter() {
                    judge_event::<V>(human, ev)?;
                }
                Ok(())
            });
        }
    }
    for k in [0u64, 3 * 256 + 0x5a, (V::SIZE as u64 - 1) * 1024 + 0xff] {
        push(items, "serde", format!("{v}/serde-formats/{k}"), move || {
            let b = value_by_index::<V>(k);
            if constructible::<V>(&b) {
                judge_serialize_events::<V>(&b)?;
                judge_formats::<V>(&b)?;
            }
            Ok(())
        });
    }
}

/// First calls made concurrently (kind "race"): each item is meant to be the ONLY item of its interpreter
/// process, so that its threads really make the process's first calls into the lazily initialised dispatch
/// cells. Miri's data-race detector (vector clocks: schedule-insensitive for accesses that both occur) is the
/// monitor; results are judged as usual.
fn race_items(items: &mut Vec<Item>) {
    fn op(name: &'static str) -> Result<(), String> {
        match name {
            "cmp12" => {
                let (a, b) = (value_by_index::<VShort>(0x5a), value_by_index::<VShort>(3 * 256 + 0x33));
                crate::checks::c02::judge_pair::<VShort>(&a, &b).map(|_| ())
            }
            "cmp32" => {
                let (a, b) = (value_by_index::<VNormal>(0x5a), value_by_index::<VNormal>(3 * 256 + 0x33));
                crate::checks::c02::judge_pair::<VNormal>(&a, &b).map(|_| ())
            }
            "cmp64" => {
                let (a, b) = (value_by_index::<VLong>(0x5a), value_by_index::<VLong>(3 * 256 + 0x33));
                crate::checks::c02::judge_pair::<VLong>(&a, &b).map(|_| ())
            }
            "fin48" => crate::checks::c01::judge_input::<VShort>(&Stream::Mixed.bytes(0, 60)).map(|_| ()),
            "fin128" => crate::checks::c01::judge_input::<VNormal>(&Stream::Mixed.bytes(0, 60)).map(|_| ()),
            "fin256" => crate::checks::c01::judge_input::<VLong>(&Stream::Mixed.bytes(0, 60)).map(|_| ()),
            "parse" => judge_parse::<VNormal>(&base_strings::<VNormal>()[2]).map(|_| ()),
            _ => judge_format::<VNormal>(&value_by_index::<VNormal>(0x5a)),
        }
    }
    const OPS: [&str; 8] = ["cmp12", "cmp32", "cmp64", "fin48", "fin128", "fin256", "parse", "format"];
    let mut groups: Vec<Vec<&'static str>> = Vec::new();
    for i in 0..OPS.len() {
        for j in i..OPS.len() {
            groups.push(vec![OPS[i], OPS[j]]);
        }
    }
    groups.push(vec!["cmp32", "cmp32", "cmp32"]);
    groups.push(vec!["cmp64", "cmp32", "fin128"]);
    groups.push(vec!["fin48", "fin128", "fin256"]);
    groups.push(vec!["cmp32", "cmp64", "cmp12", "fin128"]);
    for g in groups {
        // the quick tier runs the same-operation pairs and two mixed groups
        let kind = if (g.len() == 2 && g[0] == g[1]) || g == ["cmp64", "cmp32", "fin128"] || g == ["fin48", "fin128", "fin256"] { "race-quick" } else { "race" };
        push(items, kind, format!("first-calls/{}", g.join("+")), move || {
            let hs: Vec<_> = g.iter().map(|&name| std::thread::spawn(move || catch(|| op(name)))).collect();
            for (h, name) in hs.into_iter().zip(g.iter()) {
                match h.join() {
                    Ok(Ok(Ok(()))) => {}
                    Ok(Ok(Err(e))) => return Err(format!("{name} (concurrent first call): {e}")),
                    Ok(Err(p)) => return Err(format!("{name} (concurrent first call) panicked: {p}")),
                    Err(_) => return Err(format!("{name}: thread died")),
                }
            }
            Ok(())
        });
    }
}

pub fn items(depth: usize) -> Vec<Item> {
    let mut v = Vec::new();
    per_variant::<VShort>(&mut v, depth);
    per_variant::<VNormal>(&mut v, depth);
    per_variant::<VNormalLC>(&mut v, depth);
    per_variant::<VLong>(&mut v, depth);
    per_variant::<VLongLC>(&mut v, depth);
    #[cfg(fast_tlsh_verif)]
    backend_items(&mut v, depth);
    race_items(&mut v);
    #[cfg(feature = "serde")]
    {
        serde_items::<VShort>(&mut v, depth);
        serde_items::<VNormal>(&mut v, depth);
        serde_items::<VNormalLC>(&mut v, depth);
        serde_items::<VLong>(&mut v, depth);
        serde_items::<VLongLC>(&mut v, depth);
    }
    v
}

/// Runs shard `k` of `n` (items with index % n == k); `only` = one item index.
pub fn run(depth: usize, k: usize, n: usize, only: Option<usize>, list: bool, kinds: Option<&str>) -> Value {
    quiet_panics();
    let mut items = items(depth);
    match kinds {
        Some(ks) => {
            items.retain(|it| ks.split(',').any(|x| x == it.kind || (x == "@quick" && it.quick)));
            // race groups first: with at least as many shards as groups each one is the first thing its process does
            items.sort_by_key(|it| !it.kind.starts_with("race"));
        }
        // "race" items only make sense one per process: they run when asked for by kind
        None => items.retain(|it| !it.kind.starts_with("race")),
    }
    let mut ran = 0u64;
    let mut by_kind: HashMap<&'static str, u64> = HashMap::new();
    let mut violations = Vec::new();
    let mut slowest: Vec<(f64, String)> = Vec::new();
    if list {
        for (i, it) in items.iter().enumerate() {
            println!("{i} {} {}", it.kind, it.name);
        }
    }
    for (i, it) in items.iter().enumerate() {
        if list {
            break;
        }
        match only {
            Some(o) if o != i => continue,
            None if n == 0 || i % n != k => continue,
            _ => {}
        }
        eprintln!("ITEM {i} {}", it.name);
        let t0 = std::time::Instant::now();
        ran += 1;
        *by_kind.entry(it.kind).or_default() += 1;
        let res = match catch(|| (it.run)()) {
            Ok(r) => r,
            Err(p) => Err(format!("panicked: {p}")),
        };
        if let Err(e) = res {
            violations.push(json!({"item": i, "name": it.name, "summary": e}));
        }
        slowest.push((t0.elapsed().as_secs_f64(), it.name.clone()));
    }
    slowest.sort_by(|a, b| b.0.partial_cmp(&a.0).unwrap());
    slowest.truncate(5);
    #[cfg(fast_tlsh_verif)]
    {
        let (_, fails) = tlsh::verif::invariant_counts();
        if fails > 0 {
            violations.push(json!({"item": -1, "name": "invariant-monitor", "summary": format!("{fails} false invariant!() evaluation(s)")}));
        }
    }
    let by_kind: serde_json::Map<String, Value> = by_kind.into_iter().map(|(k, v)| (k.to_string(), json!(v))).collect();
    json!({"items_total": items.len(), "items_run": ran, "by_kind": by_kind, "violations": violations, "depth": depth, "shard": [k, n],
           "slowest_items": slowest.iter().map(|(t, n)| json!({"seconds": t, "item": n})).collect::<Vec<_>>()})
}
