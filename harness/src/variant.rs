//! The five hash variants behind one harness-side trait.
//!
//! fast-tlsh's own parameter traits are crate-private, so generic harness code
//! goes through this trait, implemented by macro for the five public types.

use std::fmt::{Debug, Display};
use std::io::Read;
use std::path::Path;
use std::str::FromStr;

use tlsh::generate::Generator;
use tlsh::hash::body::FuzzyHashBody;
use tlsh::hash::checksum::FuzzyHashChecksum;
use tlsh::hashes;
use tlsh::length::{DataLengthProcessingMode, DataLengthValidity};
use tlsh::{
    FuzzyHashType, GeneratorError, GeneratorOptions, GeneratorOrIOError, GeneratorType, ParseError,
    ParseErrorEither,
};

use crate::refmodel::{Kind, Opts, RefErr, RefGen, RefParseErr, RefValidity};

pub trait Variant: Send + Sync + 'static {
    const NAME: &'static str;
    const CK: usize;
    const NB: usize;
    const BODY: usize;
    const SIZE: usize;
    const STRLEN: usize;
    type Hash: FuzzyHashType
        + Copy
        + Eq
        + Debug
        + Display
        + Send
        + Sync
        + FromStr<Err = ParseError>;
    /// (not required to be `Sync`: a change that adds interior mutability must still be checkable)
    type Gen: GeneratorType<Output = Self::Hash> + Clone + Debug + Send;

    fn kind() -> Kind {
        Kind::from_nb(Self::NB)
    }
    fn ref_gen() -> RefGen {
        RefGen::new(Self::kind(), Self::CK)
    }
    fn new_gen() -> Self::Gen;
    fn from_slice(b: &[u8]) -> Result<Self::Hash, ParseError>;
    /// `b.len()` must be `SIZE`; goes through `TryFrom<&[u8; SIZE]>`.
    fn from_array(b: &[u8]) -> Result<Self::Hash, ParseError>;
    fn hash_buf(b: &[u8]) -> Result<Self::Hash, GeneratorError>;
    fn hash_stream<R: Read>(r: &mut R) -> Result<Self::Hash, GeneratorOrIOError>;
    fn hash_file(p: &Path) -> Result<Self::Hash, GeneratorOrIOError>;
    fn compare_with(l: &str, r: &str) -> Result<u32, ParseErrorEither>;
    fn validity(n: u32) -> DataLengthValidity;
    fn checksum_bytes(h: &Self::Hash) -> Vec<u8>;
    fn checksum_valid(h: &Self::Hash) -> bool;
    fn body_bytes(h: &Self::Hash) -> Vec<u8>;
    fn quartile(h: &Self::Hash, i: usize) -> u8;
    fn gen_min() -> u32;
    fn gen_min_conservative() -> u32;
    fn gen_max() -> u32;
    #[cfg(fast_tlsh_verif)]
    fn gen_from_parts(p: &tlsh::verif::GeneratorParts) -> Self::Gen;
    #[cfg(fast_tlsh_verif)]
    fn gen_to_parts(g: &Self::Gen) -> tlsh::verif::GeneratorParts;
    #[cfg(fast_tlsh_verif)]
    fn body_distance(backend: &str, a: &[u8], b: &[u8]) -> Option<u32>;
    #[cfg(fast_tlsh_verif)]
    fn aggregate(backend: &str, buckets: &[u32], q1: u32, q2: u32, q3: u32) -> Option<Vec<u8>>;

    /// Binary form via `store_into_bytes`.
    fn to_bytes(h: &Self::Hash) -> Vec<u8> {
        let mut v = vec![0u8; Self::SIZE];
        let n = h.store_into_bytes(&mut v).expect("store_into_bytes");
        assert_eq!(n, Self::SIZE);
        v
    }
}

macro_rules! impl_variant {
    ($t:ident, $hash:ty, $name:literal, $ck:literal, $nb:literal, $agg:ident, $dist:ident) => {
        pub struct $t;
        impl Variant for $t {
            const NAME: &'static str = $name;
            const CK: usize = $ck;
            const NB: usize = $nb;
            const BODY: usize = $nb / 4;
            const SIZE: usize = $nb / 4 + 2 + $ck;
            const STRLEN: usize = ($nb / 4 + 2 + $ck) * 2 + 2;
            type Hash = $hash;
            type Gen = Generator<$hash>;
            fn new_gen() -> Self::Gen {
                Generator::<$hash>::new()
            }
            fn from_slice(b: &[u8]) -> Result<Self::Hash, ParseError> {
                <$hash>::try_from(b)
            }
            fn from_array(b: &[u8]) -> Result<Self::Hash, ParseError> {
                let a: &[u8; $nb / 4 + 2 + $ck] = b.try_into().expect("array size");
                <$hash>::try_from(a)
            }
            fn hash_buf(b: &[u8]) -> Result<Self::Hash, GeneratorError> {
                tlsh::hash_buf_for::<$hash>(b)
            }
            fn hash_stream<R: Read>(r: &mut R) -> Result<Self::Hash, GeneratorOrIOError> {
                tlsh::hash_stream_for::<$hash, R>(r)
            }
            fn hash_file(p: &Path) -> Result<Self::Hash, GeneratorOrIOError> {
                tlsh::hash_file_for::<$hash, _>(p)
            }
            fn compare_with(l: &str, r: &str) -> Result<u32, ParseErrorEither> {
                tlsh::compare_with::<$hash>(l, r)
            }
            fn validity(n: u32) -> DataLengthValidity {
                DataLengthValidity::new::<$nb>(n)
            }
            fn checksum_bytes(h: &Self::Hash) -> Vec<u8> {
                h.checksum().data().to_vec()
            }
            fn checksum_valid(h: &Self::Hash) -> bool {
                h.checksum().is_valid()
            }
            fn body_bytes(h: &Self::Hash) -> Vec<u8> {
                h.body().data().to_vec()
            }
            fn quartile(h: &Self::Hash, i: usize) -> u8 {
                h.body().quartile(i)
            }
            fn gen_min() -> u32 {
                <Generator<$hash> as GeneratorType>::MIN
            }
            fn gen_min_conservative() -> u32 {
                <Generator<$hash> as GeneratorType>::MIN_CONSERVATIVE
            }
            fn gen_max() -> u32 {
                <Generator<$hash> as GeneratorType>::MAX
            }
            #[cfg(fast_tlsh_verif)]
            fn gen_from_parts(p: &tlsh::verif::GeneratorParts) -> Self::Gen {
                <Generator<$hash> as GeneratorType>::verif_from_parts(p)
            }
            #[cfg(fast_tlsh_verif)]
            fn gen_to_parts(g: &Self::Gen) -> tlsh::verif::GeneratorParts {
                g.verif_to_parts()
            }
            #[cfg(fast_tlsh_verif)]
            fn body_distance(backend: &str, a: &[u8], b: &[u8]) -> Option<u32> {
                let a: &[u8; $nb / 4] = a.try_into().expect("body size");
                let b: &[u8; $nb / 4] = b.try_into().expect("body size");
                tlsh::verif::body_distance::$dist(backend, a, b)
            }
            #[cfg(fast_tlsh_verif)]
            fn aggregate(
                backend: &str,
                buckets: &[u32],
                q1: u32,
                q2: u32,
                q3: u32,
            ) -> Option<Vec<u8>> {
                let b: &[u32; $nb] = buckets[..$nb].try_into().expect("bucket count");
                let mut out = [0u8; $nb / 4];
                if tlsh::verif::bucket_aggregation::$agg(backend, &mut out, b, q1, q2, q3) {
                    Some(out.to_vec())
                } else {
                    None
                }
            }
        }
    };
}

impl_variant!(VShort, hashes::Short, "Short", 1, 48, aggregate_48, distance_12);
impl_variant!(VNormal, hashes::Normal, "Normal", 1, 128, aggregate_128, distance_32);
impl_variant!(VNormalLC, hashes::NormalWithLongChecksum, "NormalWithLongChecksum", 3, 128, aggregate_128, distance_32);
impl_variant!(VLong, hashes::Long, "Long", 1, 256, aggregate_256, distance_64);
impl_variant!(VLongLC, hashes::LongWithLongChecksum, "LongWithLongChecksum", 3, 256, aggregate_256, distance_64);

pub const VARIANT_NAMES: [&str; 5] = [
    "Short",
    "Normal",
    "NormalWithLongChecksum",
    "Long",
    "LongWithLongChecksum",
];

/// Calls `$f::<V>($args)` for each of the five variants, collecting results in a Vec.
#[macro_export]
macro_rules! for_each_variant {
    ($f:ident ( $($args:expr),* )) => {{
        vec![
            $f::<$crate::variant::VShort>($($args),*),
            $f::<$crate::variant::VNormal>($($args),*),
            $f::<$crate::variant::VNormalLC>($($args),*),
            $f::<$crate::variant::VLong>($($args),*),
            $f::<$crate::variant::VLongLC>($($args),*),
        ]
    }};
}

// ---------------------------------------------------------------------------
// Conversions between the real API's types and the reference's

pub fn real_opts(o: &Opts) -> GeneratorOptions {
    let mut g = GeneratorOptions::new();
    g.length_processing_mode(if o.conservative {
        DataLengthProcessingMode::Conservative
    } else {
        DataLengthProcessingMode::Optimistic
    })
    .pure_integer_qratio_computation(o.pure_int)
    .allow_small_size_files(o.allow_small)
    .allow_statistically_weak_buckets_half(o.allow_half)
    .allow_statistically_weak_buckets_quarter(o.allow_quarter);
    g
}

pub fn map_gen_err(e: &GeneratorError) -> RefErr {
    match e {
        GeneratorError::TooLargeInput => RefErr::TooLarge,
        GeneratorError::TooSmallInput => RefErr::TooSmall,
        GeneratorError::BucketsAreHalfEmpty => RefErr::HalfEmpty,
        GeneratorError::BucketsAreThreeQuarterEmpty => RefErr::ThreeQuarterEmpty,
        _ => panic!("unknown GeneratorError variant"),
    }
}

pub fn map_parse_err(e: &ParseError) -> RefParseErr {
    match e {
        ParseError::LengthIsTooLarge => RefParseErr::LengthIsTooLarge,
        ParseError::InvalidPrefix => RefParseErr::InvalidPrefix,
        ParseError::InvalidCharacter => RefParseErr::InvalidCharacter,
        ParseError::InvalidStringLength => RefParseErr::InvalidStringLength,
        ParseError::InvalidChecksum => RefParseErr::InvalidChecksum,
        _ => panic!("unknown ParseError variant"),
    }
}

pub fn map_validity(v: DataLengthValidity) -> RefValidity {
    match v {
        DataLengthValidity::TooSmall => RefValidity::TooSmall,
        DataLengthValidity::ValidWhenOptimistic => RefValidity::ValidWhenOptimistic,
        DataLengthValidity::Valid => RefValidity::Valid,
        DataLengthValidity::TooLarge => RefValidity::TooLarge,
    }
}

/// The observable result of one finalization: the binary form or the error.
pub type Outcome = Result<Vec<u8>, RefErr>;

pub fn real_finalize<V: Variant>(g: &V::Gen, o: &Opts) -> Outcome {
    match g.finalize_with_options(&real_opts(o)) {
        Ok(h) => Ok(V::to_bytes(&h)),
        Err(e) => Err(map_gen_err(&e)),
    }
}

pub fn ref_outcome(g: &RefGen, o: &Opts) -> Outcome {
    g.finalize(o).map(|h| h.to_bytes())
}

pub fn hex(b: &[u8]) -> String {
    let mut s = String::with_capacity(b.len() * 2);
    for x in b {
        s.push_str(&format!("{:02x}", x));
    }
    s
}

pub fn unhex(s: &str) -> Vec<u8> {
    (0..s.len() / 2)
        .map(|i| u8::from_str_radix(&s[2 * i..2 * i + 2], 16).expect("hex"))
        .collect()
}

pub fn outcome_str(o: &Outcome) -> String {
    match o {
        Ok(b) => format!("Ok({})", hex(b)),
        Err(e) => format!("Err({:?})", e),
    }
}

/// Calls `$f::<V>($args)` for the variant with index / name `$sel`.
#[macro_export]
macro_rules! with_variant {
    ($sel:expr, $f:ident ( $($args:expr),* )) => {{
        match $crate::variant::variant_index($sel) {
            0 => $f::<$crate::variant::VShort>($($args),*),
            1 => $f::<$crate::variant::VNormal>($($args),*),
            2 => $f::<$crate::variant::VNormalLC>($($args),*),
            3 => $f::<$crate::variant::VLong>($($args),*),
            _ => $f::<$crate::variant::VLongLC>($($args),*),
        }
    }};
}

pub trait VariantSel {
    fn sel(&self) -> usize;
}
impl VariantSel for usize {
    fn sel(&self) -> usize {
        *self
    }
}
impl VariantSel for u64 {
    fn sel(&self) -> usize {
        *self as usize
    }
}
impl VariantSel for &str {
    fn sel(&self) -> usize {
        VARIANT_NAMES.iter().position(|n| n == self).expect("variant name")
    }
}
pub fn variant_index<S: VariantSel>(s: S) -> usize {
    s.sel()
}
