//! E2 — explicit-state exploration of operation histories on the REAL generator
//! (stateright).  States are snapshots of the real generator; transitions call the
//! real `update` / `finalize_with_options` / `clone`; a byte-at-a-time reference
//! generator runs in lock-step.  States merge only when the real snapshots are equal.

use crate::checks::common::*;
use crate::refmodel::*;
use crate::streams::Stream;
use crate::variant::*;
use serde_json::{json, Value};
use stateright::{Checker, HasDiscoveries, Model, Property};
use std::hash::{Hash, Hasher};
use std::marker::PhantomData;
use tlsh::GeneratorType;

#[derive(Clone, Debug, PartialEq, Eq, Hash)]
pub enum Act {
    Update(u32),
    FinalizeAll,
    CloneSwap,
}

/// The real generator behind a mutex, so that the state is `Sync` even if the generator is not.
pub struct GenBox<T>(std::sync::Mutex<T>);
impl<T: Clone> GenBox<T> {
    pub fn new(t: T) -> Self {
        GenBox(std::sync::Mutex::new(t))
    }
    pub fn get(&self) -> std::sync::MutexGuard<'_, T> {
        self.0.lock().unwrap_or_else(|e| e.into_inner())
    }
    pub fn cloned(&self) -> T {
        self.get().clone()
    }
}

pub struct St<V: Variant> {
    pub gen: GenBox<V::Gen>,
    pub reference: RefGen,
    /// merge key: the derived Debug text of the real generator (complete snapshot)
    pub key: String,
    /// bytes fed so far (absolute stream offset)
    pub n: u64,
    /// set by a transition that observed a violation (finalize disturbed the state, clone differs)
    pub fault: Option<String>,
}

impl<V: Variant> Clone for St<V> {
    fn clone(&self) -> Self {
        St { gen: GenBox::new(self.gen.cloned()), reference: self.reference.clone(), key: self.key.clone(), n: self.n, fault: self.fault.clone() }
    }
}
impl<V: Variant> std::fmt::Debug for St<V> {
    fn fmt(&self, f: &mut std::fmt::Formatter<'_>) -> std::fmt::Result {
        write!(f, "St(n={}, fault={:?})", self.n, self.fault)
    }
}
impl<V: Variant> PartialEq for St<V> {
    fn eq(&self, o: &Self) -> bool {
        self.n == o.n && self.fault == o.fault && self.key == o.key
    }
}
impl<V: Variant> Eq for St<V> {}
impl<V: Variant> Hash for St<V> {
    fn hash<H: Hasher>(&self, h: &mut H) {
        self.n.hash(h);
        self.fault.hash(h);
        self.key.hash(h);
    }
}

pub struct GenModel<V: Variant> {
    pub stream: Stream,
    pub start: St<V>,
    /// absolute horizon (largest n)
    pub horizon: u64,
    pub pieces: Vec<u32>,
    pub suffixes: Vec<u32>,
    pub _v: PhantomData<V>,
}

fn snapshot<V: Variant>(g: &V::Gen) -> String {
    format!("{:?}", g)
}

/// The observables of a real generator vs the reference after `n` bytes.
pub fn judge_state<V: Variant>(g: &V::Gen, r: &RefGen) -> Result<(), String> {
    let expect_len = if r.n < (1u64 << 32) { Some(r.n as u32) } else { None };
    let got = catch(|| g.processed_len()).map_err(|p| format!("processed_len panicked: {p}"))?;
    if got != expect_len {
        return Err(format!("processed_len() = {got:?} after {} bytes, expected {expect_len:?}", r.n));
    }
    compare_all_opts::<V>(g, r).map(|_| ())
}

impl<V: Variant> GenModel<V> {
    pub fn fresh(stream: Stream, horizon: u64, pieces: Vec<u32>, suffixes: Vec<u32>) -> Self {
        let gen = V::new_gen();
        let key = snapshot::<V>(&gen);
        GenModel {
            stream,
            start: St { gen: GenBox::new(gen), reference: V::ref_gen(), key, n: 0, fault: None },
            horizon,
            pieces,
            suffixes,
            _v: PhantomData,
        }
    }

    pub fn from_state(stream: Stream, gen: V::Gen, reference: RefGen, horizon: u64, pieces: Vec<u32>, suffixes: Vec<u32>) -> Self {
        let key = snapshot::<V>(&gen);
        let n = reference.n;
        GenModel { stream, start: St { gen: GenBox::new(gen), reference, key, n, fault: None }, horizon, pieces, suffixes, _v: PhantomData }
    }

    pub fn apply(&self, s: &St<V>, a: &Act) -> Option<St<V>> {
        match a {
            Act::Update(k) => {
                if s.n + *k as u64 > self.horizon {
                    return None;
                }
                let data = self.stream.bytes(s.n, *k as usize);
                let mut gen = s.gen.cloned();
                let mut fault = s.fault.clone();
                if let Err(p) = catch(|| gen.update(&data)) {
                    fault = Some(format!("update of {k} bytes at n={} panicked: {p}", s.n));
                }
                let mut reference = s.reference.clone();
                reference.feed_all(&data);
                let key = snapshot::<V>(&gen);
                Some(St { gen: GenBox::new(gen), reference, key, n: s.n + *k as u64, fault })
            }
            Act::FinalizeAll => {
                let guard = s.gen.get();
                let sgen: &V::Gen = &guard;
                let mut fault = s.fault.clone();
                let mut first = Vec::new();
                for o in Opts::all() {
                    first.push(catch(|| real_finalize::<V>(sgen, &o)));
                }
                // finalizing again gives the same answers (finalize does not disturb the generator)
                for o in Opts::all() {
                    let again = catch(|| real_finalize::<V>(sgen, &o));
                    if again != first[o.index()] {
                        fault = Some(format!("finalize({}) changed its answer when repeated at n={}", o.describe(), s.n));
                    }
                }
                let key = snapshot::<V>(sgen);
                if key != s.key {
                    fault = Some(format!("finalize changed the generator state at n={}", s.n));
                }
                Some(St { gen: GenBox::new(sgen.clone()), reference: s.reference.clone(), key, n: s.n, fault })
            }
            Act::CloneSwap => {
                let guard = s.gen.get();
                let sgen: &V::Gen = &guard;
                let clone = sgen.clone();
                let mut fault = s.fault.clone();
                let ckey = snapshot::<V>(&clone);
                if ckey != s.key || snapshot::<V>(sgen) != s.key {
                    fault = Some(format!("clone differs from its original (or cloning disturbed it) at n={}", s.n));
                }
                // a clone must not share mutable state with its original: continue a second clone with
                // different bytes, drop it, and observe the original again
                if fault.is_none() {
                    let before: Vec<_> = Opts::all().map(|o| catch(|| real_finalize::<V>(sgen, &o))).collect();
                    let mut side = sgen.clone();
                    let junk = [0xa5u8, 0x5a, 0x00, 0xff, 0x17, 0x2a, 0x81];
                    let _ = catch(|| {
                        side.update(&junk);
                        side.update(&junk[..3]);
                        let _ = side.finalize();
                    });
                    drop(side);
                    let after: Vec<_> = Opts::all().map(|o| catch(|| real_finalize::<V>(sgen, &o))).collect();
                    if before != after || snapshot::<V>(&clone) != ckey {
                        fault = Some(format!("updating a clone changed its original (or a sibling clone) at n={}", s.n));
                    }
                }
                // Clone::clone_from into generators that have already been used (shorter, longer, fresh)
                if fault.is_none() {
                    let expect: Vec<_> = Opts::all().map(|o| catch(|| real_finalize::<V>(sgen, &o))).collect();
                    let expect_len = sgen.processed_len();
                    for dirty_len in [0usize, 3, 5, 41, 200] {
                        let mut dst = V::new_gen();
                        let junk: Vec<u8> = (0..dirty_len).map(|i| (i * 89 + 7) as u8).collect();
                        dst.update(&junk);
                        let r = catch(|| dst.clone_from(sgen));
                        let got: Vec<_> = Opts::all().map(|o| catch(|| real_finalize::<V>(&dst, &o))).collect();
                        // and it keeps behaving like the source: feed both the same 6 further bytes
                        let mut a = sgen.clone();
                        let more = self.stream.bytes(s.n, 6);
                        let mut same_future = true;
                        // a panic of the plain clone's own update is the Update action's finding, not clone_from's
                        if catch(|| a.update(&more)).is_err() {
                            break;
                        }
                        if catch(|| dst.update(&more)).is_err() {
                            same_future = false;
                        }
                        for o in Opts::all() {
                            if catch(|| real_finalize::<V>(&a, &o)) != catch(|| real_finalize::<V>(&dst, &o)) {
                                same_future = false;
                            }
                        }
                        if r.is_err() || got != expect || dst.processed_len() != a.processed_len() || !same_future || expect_len != sgen.processed_len() {
                            fault = Some(format!("clone_from into a generator that had seen {dirty_len} bytes does not behave like the source at n={}", s.n));
                            break;
                        }
                    }
                }
                Some(St { gen: GenBox::new(clone), reference: s.reference.clone(), key: ckey, n: s.n, fault })
            }
        }
    }

    /// Full invariant with an explanation (used for messages and replays).
    pub fn invariant(&self, s: &St<V>) -> Result<(), String> {
        if let Some(f) = &s.fault {
            return Err(f.clone());
        }
        let guard = s.gen.get();
        let sgen: &V::Gen = &guard;
        judge_state::<V>(sgen, &s.reference)?;
        // futures agree: after any common suffix the observables equal those of the reference
        // (== those of a fresh generator fed the whole prefix in one call, see `one_shot`)
        for &k in &self.suffixes {
            let data = self.stream.bytes(s.n, k as usize);
            let mut g = sgen.clone();
            catch(|| g.update(&data)).map_err(|p| format!("update (suffix {k}) panicked: {p}"))?;
            let mut r = s.reference.clone();
            r.feed_all(&data);
            judge_state::<V>(&g, &r).map_err(|e| format!("after a further {k}-byte update: {e}"))?;
        }
        Ok(())
    }
}

fn prop_invariant<V: Variant>(m: &GenModel<V>, s: &St<V>) -> bool {
    m.invariant(s).is_ok()
}
fn prop_horizon<V: Variant>(m: &GenModel<V>, s: &St<V>) -> bool {
    s.n == m.horizon
}

impl<V: Variant> Model for GenModel<V> {
    type State = St<V>;
    type Action = Act;

    fn init_states(&self) -> Vec<Self::State> {
        vec![self.start.clone()]
    }

    fn actions(&self, s: &Self::State, actions: &mut Vec<Self::Action>) {
        if s.fault.is_some() {
            return;
        }
        for &k in &self.pieces {
            if s.n + k as u64 <= self.horizon {
                actions.push(Act::Update(k));
            }
        }
        actions.push(Act::FinalizeAll);
        actions.push(Act::CloneSwap);
    }

    fn next_state(&self, s: &Self::State, a: Self::Action) -> Option<Self::State> {
        self.apply(s, &a)
    }

    fn properties(&self) -> Vec<Property<Self>> {
        vec![
            Property::always("observables equal the reference (now and after every suffix)", prop_invariant::<V>),
            Property::sometimes("horizon reached", prop_horizon::<V>),
        ]
    }
}

pub struct ExploreResult {
    pub unique_states: u64,
    pub generated: u64,
    pub max_depth: u64,
    pub horizon_reached: bool,
    pub violation: Option<(String, Value)>,
    pub distinct_observation_vectors: u64,
}

pub fn actions_json(acts: &[Act]) -> Value {
    Value::Array(
        acts.iter()
            .map(|a| match a {
                Act::Update(k) => json!({"update": k}),
                Act::FinalizeAll => json!("finalize_all"),
                Act::CloneSwap => json!("clone_swap"),
            })
            .collect(),
    )
}

pub fn actions_from_json(v: &Value) -> Vec<Act> {
    v.as_array()
        .map(|a| {
            a.iter()
                .map(|x| {
                    if let Some(k) = x.get("update").and_then(|k| k.as_u64()) {
                        Act::Update(k as u32)
                    } else if x.as_str() == Some("clone_swap") {
                        Act::CloneSwap
                    } else {
                        Act::FinalizeAll
                    }
                })
                .collect()
        })
        .unwrap_or_default()
}

/// Runs the checker with `threads` threads.
pub fn explore<V: Variant>(model: GenModel<V>, threads: usize) -> ExploreResult {
    let horizon = model.horizon;
    let checker = model
        .checker()
        .threads(threads)
        .finish_when(HasDiscoveries::AnyFailures)
        .spawn_bfs()
        .join();
    let discoveries = checker.discoveries();
    let mut violation = None;
    let mut horizon_reached = false;
    for (name, path) in discoveries {
        if name == "horizon reached" {
            horizon_reached = true;
            continue;
        }
        let m = checker.model();
        let last = path.last_state().clone();
        let msg = m.invariant(&last).err().unwrap_or_else(|| "the invariant failed when the state was first judged but holds when judged again: the observables depend on hidden state left behind by earlier finalize / clone calls".into());
        let acts: Vec<Act> = path.into_actions();
        violation = Some((
            format!("{} {} after history {:?}: {msg}", V::NAME, m.stream.name(), acts),
            json!({"kind": "history", "variant": V::NAME, "stream": m.stream.name(), "horizon": horizon, "actions": actions_json(&acts),
                   "suffixes": m.suffixes}),
        ));
    }
    ExploreResult {
        unique_states: checker.unique_state_count() as u64,
        generated: checker.state_count() as u64,
        max_depth: checker.max_depth() as u64,
        horizon_reached,
        violation,
        distinct_observation_vectors: 0,
    }
}

/// Replays a history on a fresh real generator through the public API only, judging every state.
pub fn replay_history<V: Variant>(stream: Stream, acts: &[Act], suffixes: &[u32]) -> Result<(), String> {
    let model = GenModel::<V>::fresh(stream, u64::MAX / 2, vec![], suffixes.to_vec());
    let mut s = model.start.clone();
    model.invariant(&s)?;
    for (i, a) in acts.iter().enumerate() {
        s = model.apply(&s, a).ok_or("action not applicable")?;
        model.invariant(&s).map_err(|e| format!("after step {i} ({a:?}), n={}: {e}", s.n))?;
    }
    // differential oracle: the state reached through the history vs a fresh generator fed in one call
    let whole = stream.bytes(0, s.n as usize);
    let one = fresh_fed::<V>(&whole);
    for o in Opts::all() {
        if real_finalize::<V>(&one, &o) != real_finalize::<V>(&s.gen.get(), &o) {
            return Err(format!("finalize({}) differs between the history and a single update of {} bytes", o.describe(), s.n));
        }
    }
    Ok(())
}
