//! Verification harness for a4lg/fast-tlsh (model-checking family).
#![allow(clippy::too_many_arguments)]
#![allow(clippy::needless_range_loop)]
#![allow(clippy::type_complexity)]

pub mod alloc_counter;
pub mod checks;
#[cfg(feature = "explore")]
pub mod explore;
pub mod explore_free;
pub mod miri_suite;
pub mod readers;
pub mod refmodel;
pub mod report;
#[cfg(fast_tlsh_verif)]
pub mod sched;
pub mod seq;
pub mod streams;
pub mod transcript;
pub mod variant;

use report::Report;

#[global_allocator]
static GLOBAL: alloc_counter::Counting = alloc_counter::Counting;

#[derive(Debug, Clone, Copy, PartialEq, Eq)]
pub enum Tier {
    Quick,
    Thorough,
}

pub struct Ctx {
    pub tier: Tier,
    pub seed: u64,
    /// Run only sections whose name starts with this prefix.
    pub only: Option<String>,
    /// Scratch directory (under /verif/.cache).
    pub scratch: std::path::PathBuf,
}

impl Ctx {
    pub fn quick(&self) -> bool {
        self.tier == Tier::Quick
    }
    pub fn want(&self, section: &str) -> bool {
        // VERIF_SKIP=prefix[,prefix]: sections left out of this run (used when another property re-runs an
        // enumeration under a slow monitor build and only needs the per-call sections)
        if let Ok(skip) = std::env::var("VERIF_SKIP") {
            if skip.split(',').any(|p| !p.is_empty() && section.starts_with(p)) {
                return false;
            }
        }
        match &self.only {
            None => true,
            // a gate passes if it is inside the requested prefix or the requested name is inside the gate
            Some(p) => section.starts_with(p.as_str()) || p.starts_with(section),
        }
    }
}

/// Whether the hooks are compiled in.
pub const HOOKS: bool = cfg!(fast_tlsh_verif);

pub fn run_check(id: &str, r: &mut Report, ctx: &Ctx) -> bool {
    match id {
        "C01" => checks::c01::run(r, ctx),
        "C02" => checks::c02::run(r, ctx),
        "C03" => checks::c03::run(r, ctx),
        "C04" => checks::c04::run(r, ctx),
        "C05" => checks::c05::run(r, ctx),
        "C06" => checks::c06::run(r, ctx),
        "C10" => checks::c10::run(r, ctx),
        "C11" => checks::c11::run(r, ctx),
        "C12" => checks::c12::run(r, ctx),
        "C13" => checks::c13::run(r, ctx),
        "C14" => checks::c14::run(r, ctx),
        "C07" => checks::c07::run(r, ctx),
        "C08" => checks::c08::run(r, ctx),
        "C09" => checks::c09::run(r, ctx),
        "C15" => checks::c15::run(r, ctx),
        #[cfg(feature = "serde")]
        "C16" => checks::c16::run(r, ctx),
        "C17" => checks::c17::run(r, ctx),
        "C18" => checks::c18::run(r, ctx),
        _ => return false,
    }
    true
}

pub fn replay(id: &str, case: &serde_json::Value) -> Result<(), String> {
    if case["kind"].as_str() == Some("sequence") {
        return seq::replay(case);
    }
    match id {
        "C01" => checks::c01::replay(case),
        "C02" => checks::c02::replay(case),
        "C03" => checks::c03::replay(case),
        "C04" => checks::c04::replay(case),
        "C05" => checks::c05::replay(case),
        "C06" => checks::c06::replay(case),
        "C10" => checks::c10::replay(case),
        "C11" => checks::c11::replay(case),
        "C12" => checks::c12::replay(case),
        "C13" => checks::c13::replay(case),
        "C14" => checks::c14::replay(case),
        "C07" => checks::c07::replay(case),
        "C08" => checks::c08::replay(case),
        "C09" => checks::c09::replay(case),
        "C15" => checks::c15::replay(case),
        #[cfg(feature = "serde")]
        "C16" => checks::c16::replay(case),
        "C17" => checks::c17::replay(case),
        "C18" => checks::c18::replay(case),
        _ => Err(format!("no replay for {id}")),
    }
}
