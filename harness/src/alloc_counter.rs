//! A counting global allocator with a thread-local "armed" flag.
//! While armed, every allocator call on this thread is counted.

use std::alloc::{GlobalAlloc, Layout, System};
use std::cell::Cell;

pub struct Counting;

thread_local! {
    static ARMED: Cell<bool> = const { Cell::new(false) };
    static COUNT: Cell<u64> = const { Cell::new(0) };
}

#[inline]
fn note() {
    // try_with: thread-local may be gone during thread teardown
    let _ = ARMED.try_with(|a| {
        if a.get() {
            let _ = COUNT.try_with(|c| c.set(c.get() + 1));
        }
    });
}

unsafe impl GlobalAlloc for Counting {
    unsafe fn alloc(&self, layout: Layout) -> *mut u8 {
        note();
        System.alloc(layout)
    }
    unsafe fn dealloc(&self, ptr: *mut u8, layout: Layout) {
        note();
        System.dealloc(ptr, layout)
    }
    unsafe fn alloc_zeroed(&self, layout: Layout) -> *mut u8 {
        note();
        System.alloc_zeroed(layout)
    }
    unsafe fn realloc(&self, ptr: *mut u8, layout: Layout, new_size: usize) -> *mut u8 {
        note();
        System.realloc(ptr, layout, new_size)
    }
}

/// Runs `f` with the counter armed on this thread; returns its result and the number
/// of allocator calls (alloc, dealloc, realloc, alloc_zeroed) made meanwhile.
pub fn armed<T>(f: impl FnOnce() -> T) -> (T, u64) {
    COUNT.with(|c| c.set(0));
    ARMED.with(|a| a.set(true));
    let r = f();
    ARMED.with(|a| a.set(false));
    (r, COUNT.with(|c| c.get()))
}
