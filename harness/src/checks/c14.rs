//! C14 — serializers respect the caller's buffer.

use crate::checks::codec::*;
use crate::checks::common::*;
use crate::report::*;
use crate::streams::splitmix64;
use crate::variant::*;
use crate::{with_variant, Ctx};
use serde_json::{json, Value};

fn hash_values<V: Variant>() -> Vec<Vec<u8>> {
    let mut v = vec![vec![0u8; V::SIZE], vec![0x5a; V::SIZE]];
    let mut ff = vec![0xffu8; V::SIZE];
    if STRICT {
        ff[0] = 0x30;
        ff[V::CK] = 0xa9;
    }
    v.push(ff);
    for k in 0..5u64 {
        let mut b: Vec<u8> = (0..V::SIZE).map(|i| (splitmix64(k * 977 + i as u64) >> 16) as u8).collect();
        if STRICT {
            if V::NB == 48 {
                b[0] %= 49;
            }
            b[V::CK] %= 170;
        }
        v.push(b);
    }
    v
}

fn per_variant<V: Variant>(r: &mut Report, ctx: &Ctx) {
    let name = format!("buffers-{}", V::NAME);
    if !ctx.want(&name) {
        return;
    }
    r.section(
        &name,
        "8 hash values x 3 forms (bytes, hex, hex+prefix) x every buffer length 0..=N+64 and N+{100,127,128,129,256,1000}, 4096, 65536+N x 7 prior contents (3 masked constants, 4 ramps covering every byte value): too small => BufferIsTooSmall; otherwise Ok(N), buf[..N] == representation, buf[N..] untouched; distinct by enumeration; non-trivial = all",
        &format!("8 x 3 x {} lengths x 7 fills", V::STRLEN + 73),
        true,
        |s| {
            let vals = hash_values::<V>();
            let vals = &vals;
            let nl = (V::STRLEN + 73) as u64;
            s.acc = par_for(8 * 3 * nl * 7, 128, |idx, acc| {
                let fill = [0x00u8, 0xa5, 0xff, 0x21, 0x61, 0xa1, 0xe1][(idx % 7) as usize];
                let len = ((idx / 7) % nl) as usize;
                let form = ((idx / 7 / nl) % 3) as usize;
                let hv = &vals[(idx / 21 / nl) as usize];
                let n = [V::SIZE, V::STRLEN - 2, V::STRLEN][form];
                // lengths 0..=N+64 one by one, then a few much larger buffers
                let len = if len > n + 64 {
                    match len - (n + 65) {
                        0 => n + 100,
                        1 => n + 127,
                        2 => n + 128,
                        3 => n + 129,
                        4 => n + 256,
                        5 => n + 1000,
                        6 => 4096,
                        7 => 65536 + n,
                        _ => return,
                    }
                } else {
                    len
                };
                acc.evals += 1;
                acc.transitions += 1;
                acc.nontrivial += 1;
                acc.outcomes.insert(((len >= n) as u64) | (form as u64) << 1);
                match judge_buffer::<V>(hv, form, len, fill) {
                    Ok(()) => {
                        if len == n + 3 && fill == 0xa5 {
                            acc.sample(idx, || json!({"variant": V::NAME, "value": hex(hv), "form": form, "buffer_len": len}));
                        }
                    }
                    Err(e) => acc.fail(idx, &name, e, json!({"kind": "buffer", "variant": V::NAME, "value": hex(hv), "form": form, "len": len, "fill": fill})),
                }
            });
        },
    );
}

pub fn run(r: &mut Report, ctx: &Ctx) {
    quiet_panics();
    per_variant::<VShort>(r, ctx);
    per_variant::<VNormal>(r, ctx);
    per_variant::<VNormalLC>(r, ctx);
    per_variant::<VLong>(r, ctx);
    per_variant::<VLongLC>(r, ctx);
    crate::seq::section(r, ctx, "codec");
}

fn rb<V: Variant>(b: &[u8], form: usize, len: usize, fill: u8) -> Result<(), String> {
    judge_buffer::<V>(b, form, len, fill)
}

pub fn replay(case: &Value) -> Result<(), String> {
    let v = case["variant"].as_str().ok_or("variant")?;
    let b = unhex(case["value"].as_str().ok_or("value")?);
    let form = case["form"].as_u64().ok_or("form")? as usize;
    let len = case["len"].as_u64().ok_or("len")? as usize;
    let fill = case["fill"].as_u64().ok_or("fill")? as u8;
    with_variant!(v, rb(&b, form, len, fill))
}
