//! C11 — oversized and >4 GiB inputs are rejected cleanly; fed length reported exactly.

use crate::checks::common::*;
use crate::refmodel::tables::MAX_LEN;
use crate::refmodel::*;
use crate::report::*;
use crate::streams::Stream;
use crate::variant::*;
use crate::{with_variant, Ctx};
use serde_json::{json, Value};
use tlsh::GeneratorType;

/// A plausible state `n0` bytes into `stream` (buckets synthetic, window consistent with the stream).
pub fn seeded_ref<V: Variant>(stream: Stream, n0: u64) -> RefGen {
    let mut r = V::ref_gen();
    for i in 0..256 {
        r.buckets[i] = (i as u32 % 7 + 1) * 100_003 + i as u32;
    }
    r.cksum = [0x15, 0x22, 0x33];
    if V::NB == 48 {
        r.cksum[0] = 0x15;
    }
    for i in V::CK..3 {
        r.cksum[i] = 0;
    }
    for i in 0..4 {
        r.last4[i] = stream.byte(n0 - 4 + i as u64);
    }
    r.n = n0;
    r
}

#[cfg(all(fast_tlsh_verif, feature = "explore"))]
fn explore_from<V: Variant>(stream: Stream, n0: u64, span: u64, pieces: &[u32], suffixes: &[u32], threads: usize) -> crate::explore::ExploreResult {
    use crate::explore::*;
    let r = seeded_ref::<V>(stream, n0);
    let g = V::gen_from_parts(&hooked::parts_from_ref(&r));
    let mut res = explore(GenModel::<V>::from_state(stream, g, r, n0 + span, pieces.to_vec(), suffixes.to_vec()), threads);
    if let Some((msg, replay)) = res.violation.take() {
        let mut replay = replay;
        replay["kind"] = json!("history-from");
        replay["n0"] = json!(n0);
        res.violation = Some((format!("from injected n0={n0}: {msg}"), replay));
    }
    res
}

#[cfg(all(fast_tlsh_verif, feature = "explore"))]
fn replay_from<V: Variant>(stream: Stream, n0: u64, acts: &[crate::explore::Act], suffixes: &[u32]) -> Result<(), String> {
    use crate::explore::*;
    let r = seeded_ref::<V>(stream, n0);
    let g = V::gen_from_parts(&hooked::parts_from_ref(&r));
    let model = GenModel::<V>::from_state(stream, g, r, u64::MAX / 2, vec![], suffixes.to_vec());
    let mut s = model.start.clone();
    model.invariant(&s)?;
    for (i, a) in acts.iter().enumerate() {
        s = model.apply(&s, a).ok_or("action not applicable")?;
        model.invariant(&s).map_err(|e| format!("after step {i} ({a:?}), n={}: {e}", s.n))?;
    }
    Ok(())
}

/// Really feeds `total` bytes of `stream` in `piece`-byte updates, judging at every mark
/// (and for `around` bytes after each mark byte by byte).
#[cfg(fast_tlsh_verif)]
fn real_feed<V: Variant>(stream: Stream, marks: &[u64], total: u64, acc: &mut Acc, key: u64) {
    use crate::checks::common::hooked::*;
    let mut g = V::new_gen();
    let mut r = V::ref_gen();
    let piece = (1usize << 20) + 3;
    let mut buf = vec![0u8; piece];
    let mut off = 0u64;
    let mut mi = 0usize;
    while off < total {
        let next_mark = marks.get(mi).copied().unwrap_or(u64::MAX);
        let k = ((total - off).min(piece as u64)).min(next_mark.saturating_sub(off).max(1)) as usize;
        let k = if off < next_mark { k.min((next_mark - off) as usize) } else { k };
        stream.fill(off, &mut buf[..k]);
        g.update(&buf[..k]);
        // the reference is byte-at-a-time; past 2^32 only its counter matters
        if off + (k as u64) <= (1u64 << 32) + 64 {
            r.feed_all(&buf[..k]);
        } else {
            r.n += k as u64;
        }
        off += k as u64;
        acc.transitions += 1;
        if off == next_mark {
            mi += 1;
            acc.evals += 1;
            acc.nontrivial += 1;
            let p = V::gen_to_parts(&g);
            let mut res = crate::explore_free::judge_state_free::<V>(&g, &r);
            if res.is_ok() && off < (1u64 << 32) {
                res = parts_match_ref::<V>(&p, &r);
            }
            // the injection hook is the identity on this really reached state: continue both for 24 bytes
            if res.is_ok() {
                let mut twin = V::gen_from_parts(&p);
                let mut g2 = g.clone();
                let mut r2 = r.clone();
                for i in 0..24u64 {
                    let b = stream.byte(off + i);
                    twin.update(&[b]);
                    g2.update(&[b]);
                    r2.feed(b);
                    let a = crate::explore_free::judge_state_free::<V>(&g2, &r2);
                    let t = crate::explore_free::judge_state_free::<V>(&twin, &r2);
                    if let Err(e) = a.and(t) {
                        res = Err(format!("{i} bytes past the mark (real / injected twin): {e}"));
                        break;
                    }
                    if V::gen_to_parts(&twin) != V::gen_to_parts(&g2) {
                        res = Err(format!("injected twin state differs from the really fed state {i} bytes past the mark"));
                        break;
                    }
                }
            }
            match res {
                Ok(()) => {
                    acc.outcomes.insert(off);
                    acc.sample(key + mi as u64, || json!({"variant": V::NAME, "stream": stream.name(), "bytes_really_fed": off, "processed_len": g.processed_len()}));
                }
                Err(e) => {
                    acc.fail(key + mi as u64, "real-feed", format!("{} {} after {off} really fed bytes: {e}", V::NAME, stream.name()), json!({"kind": "real-feed", "variant": V::NAME, "stream": stream.name(), "n": off}));
                    return;
                }
            }
        }
    }
}

pub fn run(r: &mut Report, ctx: &Ctx) {
    quiet_panics();
    let quick = ctx.quick();
    let _ = quick;

    #[cfg(all(fast_tlsh_verif, feature = "explore"))]
    if ctx.want("histories-from") {
        use crate::explore::*;
        let starts: Vec<u64> = if quick { vec![MAX_LEN - 12, (1u64 << 32) - 12, (1u64 << 31) - 12, MAX_LEN - 70, (1u64 << 32) - 70] } else { vec![MAX_LEN - 12, (1u64 << 32) - 12, (1u64 << 31) - 12, MAX_LEN - 70, (1u64 << 32) - 70, u32::MAX as u64 - 2] };
        let span: u64 = if quick { 100 } else { 400 };
        let pieces: Vec<u32> = vec![0, 1, 2, 3, 4, 5, 6, 7, 8, 9, 13, 64];
        let suffixes: Vec<u32> = vec![1, 5, 64];
        let streams = [Stream::Mixed, Stream::A40e];
        let ninst = (starts.len() * streams.len() * 5) as u64;
        r.section(
            "histories-from",
            "explicit-state search (stateright BFS) over update/finalize/clone histories on the real generator from injected start states a few bytes before the 4,224,281,216-byte and 2^32-byte marks: every way a piece can start before / end on / straddle / start after each mark is a path; invariant on every state: processed_len == (n < 2^32 ? Some(n) : None), finalize == TooLargeInput <=> n > MAX under all 32 options, n <= MAX => equals the reference (length code 169 at MAX), no panic (overflow checks in the hookdbg build); reference counter is u64; non-trivial = unique states",
            &format!("starts {:?}, span +{span}, pieces {:?}, 2 streams x 5 variants", starts, pieces),
            true,
            |s| {
                let starts = &starts;
                let pieces = &pieces;
                let suffixes = &suffixes;
                s.acc = par_for(ninst, 1, |idx, acc| {
                    let v = (idx % 5) as usize;
                    let st = streams[((idx / 5) % 2) as usize];
                    let n0 = starts[(idx / 10) as usize];
                    let res: ExploreResult = with_variant!(v, explore_from(st, n0, span, pieces, suffixes, 1));
                    acc.evals += res.unique_states;
                    acc.transitions += res.generated;
                    acc.nontrivial += res.unique_states;
                    acc.outcomes.insert(n0);
                    if let Some((msg, replay)) = &res.violation {
                        acc.fail(idx, "histories-from", msg.clone(), replay.clone());
                    } else if !res.horizon_reached {
                        acc.fail(1000 + idx, "histories-from", "MACHINERY: horizon not reached".into(), json!({"kind": "machinery"}));
                    }
                    acc.sample(idx, || json!({"variant": VARIANT_NAMES[v], "stream": st.name(), "n0": n0, "unique_states": res.unique_states, "generated_states": res.generated}));
                });
                s.states = s.acc.evals;
                s.extra.insert("traces_validated_against_impl".into(), json!(s.acc.transitions));
            },
        );
    }

    // public API only: moderately large inputs in odd piece sizes still report their exact length
    if ctx.want("public-lengths") {
        r.section(
            "public-lengths",
            "public API only: feeding S0 in pieces from {0,1,3,4,5,4093,65536,1048579} in a fixed rotation up to the bound; processed_len exact and finalize never TooLargeInput below MAX; non-trivial = checkpoints",
            if quick { "up to 16 MiB x 5 variants" } else { "up to 512 MiB x 5 variants" },
            true,
            |s| {
                let total: u64 = if quick { 16 << 20 } else { 512 << 20 };
                s.acc = par_for(5, 1, |idx, acc| {
                    fn go<V: Variant>(total: u64, acc: &mut Acc, key: u64) {
                        let sizes = [0usize, 1, 3, 4, 5, 4093, 65536, 1048579];
                        let mut g = V::new_gen();
                        let mut off = 0u64;
                        let mut i = 0usize;
                        let mut buf = vec![0u8; 1048579];
                        while off < total {
                            let k = sizes[i % sizes.len()].min((total - off) as usize);
                            i += 1;
                            Stream::Mixed.fill(off, &mut buf[..k]);
                            g.update(&buf[..k]);
                            off += k as u64;
                            acc.transitions += 1;
                            if i % 8 == 0 {
                                acc.evals += 1;
                                acc.nontrivial += 1;
                                let pl = g.processed_len();
                                let fin = g.finalize();
                                if pl != Some(off as u32) || matches!(fin, Err(tlsh::GeneratorError::TooLargeInput)) {
                                    acc.fail(key + i as u64, "public-lengths", format!("{}: after {off} bytes processed_len = {pl:?}, finalize = {:?}", V::NAME, fin.map(|h| h.to_string())), json!({"kind": "public-len", "variant": V::NAME, "n": off}));
                                    return;
                                }
                                acc.outcomes.insert(off >> 20);
                            }
                        }
                        acc.sample(key, || json!({"variant": V::NAME, "fed": off, "processed_len": g.processed_len()}));
                    }
                    with_variant!(idx, go(total, acc, idx << 32))
                });
            },
        );
    }

    #[cfg(fast_tlsh_verif)]
    if ctx.want("real-feed") && !quick {
        r.section(
            "real-feed",
            "a real 2^32+64-byte stream fed in 1 MiB+3-byte updates (no injection): at MAX-12, MAX, MAX+1, 2^32-12, 2^32-1, 2^32, 2^32+16 the observables are judged, the state read back through the hook equals the byte-at-a-time reference state (below 2^32), and a generator injected with the read-back parts evolves identically to the really fed one for 24 further bytes (validates the injection hook on reachable states); non-trivial = marks",
            "2 streams x 5 variants x (2^32+64) bytes",
            true,
            |s| {
                let marks = [MAX_LEN - 12, MAX_LEN, MAX_LEN + 1, (1u64 << 32) - 12, (1u64 << 32) - 1, 1u64 << 32, (1u64 << 32) + 16];
                s.acc = par_for(10, 1, |idx, acc| {
                    let st = [Stream::Mixed, Stream::A40e][(idx / 5) as usize];
                    fn go<V: Variant>(st: Stream, marks: &[u64], acc: &mut Acc, key: u64) {
                        real_feed::<V>(st, marks, (1u64 << 32) + 64, acc, key)
                    }
                    with_variant!(idx % 5, go(st, &marks, acc, idx << 32))
                });
            },
        );
    }

    if ctx.want("single-huge-update") {
        r.section(
            "single-huge-update",
            "one update call with a single slice longer than 4 GiB (zeros; the u32::try_from(len) path), then one more byte: processed_len None, finalize TooLargeInput under all options, no panic; and a slice of exactly MAX bytes: processed_len Some(MAX), finalize not TooLargeInput; non-trivial = all",
            if quick { "1 slice (2^32+16 bytes) x 1 variant" } else { "2 slices x 2 variants" },
            true,
            |s| {
                let big = vec![0u8; (1usize << 32) + 16];
                let big = &big;
                // quick: the >4 GiB slice on one variant (35 s of hashing); thorough: both slices, two variants
                s.acc = par_for(if quick { 1 } else { 4 }, 1, |idx, acc| {
                    fn go<V: Variant>(data: &[u8], acc: &mut Acc, key: u64) {
                        acc.evals += 1;
                        acc.transitions += 34;
                        acc.nontrivial += 1;
                        let res = catch(|| {
                            let mut g = V::new_gen();
                            g.update(data);
                            let pl = g.processed_len();
                            let outs: Vec<Outcome> = Opts::all().map(|o| real_finalize::<V>(&g, &o)).collect();
                            (pl, outs)
                        });
                        let n = data.len() as u64;
                        match res {
                            Err(p) => acc.fail(key, "single-huge-update", format!("{} update of one {n}-byte slice panicked: {p}", V::NAME), json!({"kind": "huge", "variant": V::NAME, "len": n})),
                            Ok((pl, outs)) => {
                                let want_pl = if n < (1 << 32) { Some(n as u32) } else { None };
                                let too_large = n > MAX_LEN;
                                let bad = pl != want_pl || outs.iter().any(|o| (*o == Err(RefErr::TooLarge)) != too_large);
                                if bad {
                                    acc.fail(key, "single-huge-update", format!("{} one {n}-byte slice: processed_len = {pl:?}, finalize(default) = {}", V::NAME, outcome_str(&outs[0])), json!({"kind": "huge", "variant": V::NAME, "len": n}));
                                } else {
                                    acc.outcomes.insert(n);
                                    acc.sample(key, || json!({"variant": V::NAME, "slice_len": n, "processed_len": pl}));
                                }
                            }
                        }
                    }
                    let data: &[u8] = if idx / 2 == 0 { &big[..] } else { &big[..MAX_LEN as usize] };
                    if idx % 2 == 0 { go::<VNormal>(data, acc, idx) } else { go::<VShort>(data, acc, idx) }
                });
            },
        );
    }
}

pub fn replay(case: &Value) -> Result<(), String> {
    quiet_panics();
    match case["kind"].as_str().unwrap_or("") {
        #[cfg(all(fast_tlsh_verif, feature = "explore"))]
        "history-from" => {
            let v = case["variant"].as_str().ok_or("variant")?;
            let st = Stream::from_name(case["stream"].as_str().ok_or("stream")?).ok_or("stream")?;
            let n0 = case["n0"].as_u64().ok_or("n0")?;
            let acts = crate::explore::actions_from_json(&case["actions"]);
            let suffixes: Vec<u32> = case["suffixes"].as_array().map(|a| a.iter().map(|x| x.as_u64().unwrap() as u32).collect()).unwrap_or_default();
            println!("from n0={n0}: {acts:?}");
            with_variant!(v, replay_from(st, n0, &acts, &suffixes))
        }
        k => Err(format!("replay kind {k}: re-run the check (needs the hook+explore build or a multi-GiB feed)")),
    }
}
