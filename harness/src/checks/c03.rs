//! C03 — hash is independent of how the input is chunked, finalized or cloned.

use crate::checks::common::*;
use crate::refmodel::*;
use crate::report::*;
use crate::streams::Stream;
use crate::variant::*;
use crate::{with_variant, Ctx};
use serde_json::{json, Value};
use tlsh::GeneratorType;

/// All observables of a generator (no reference involved).
fn observables<V: Variant>(g: &V::Gen) -> (Option<u32>, Vec<Outcome>) {
    (g.processed_len(), Opts::all().map(|o| real_finalize::<V>(g, &o)).collect())
}

/// Feeds `data` split at `cuts` (sorted, may repeat => empty pieces) and compares all
/// observables with a single update.
pub fn judge_split<V: Variant>(data: &[u8], cuts: &[usize]) -> Result<u64, String> {
    let one = fresh_fed::<V>(data);
    let mut g = V::new_gen();
    let mut prev = 0usize;
    for &c in cuts.iter().chain(std::iter::once(&data.len())) {
        catch(|| g.update(&data[prev..c])).map_err(|p| format!("update panicked: {p}"))?;
        prev = c;
    }
    let a = observables::<V>(&one);
    let b = observables::<V>(&g);
    if a != b {
        let which = (0..32).find(|&i| a.1[i] != b.1[i]);
        return Err(format!(
            "{}: {} bytes split at {:?}: processed_len {:?} vs {:?}; first differing finalize: {:?} ({} vs {})",
            V::NAME, data.len(), cuts, b.0, a.0,
            which.map(|i| Opts::from_index(i).describe()),
            which.map(|i| outcome_str(&b.1[i])).unwrap_or_default(),
            which.map(|i| outcome_str(&a.1[i])).unwrap_or_default()
        ));
    }
    Ok(outcomes_fp(&a.1))
}

/// Feeds `pieces` (lengths) of the stream to a fresh generator one update each and compares
/// processed_len and all 32 finalizations with the reference model fed the same bytes.
pub fn judge_pieces<V: Variant>(st: Stream, pieces: &[usize]) -> Result<u64, String> {
    let total: usize = pieces.iter().sum();
    let data = st.bytes(0, total);
    let mut g = V::new_gen();
    let mut off = 0usize;
    for &p in pieces {
        catch(|| g.update(&data[off..off + p])).map_err(|e| format!("{}: update of a {p}-byte piece (pieces {pieces:?}) panicked: {e}", V::NAME))?;
        off += p;
    }
    let r = ref_fed::<V>(&data);
    let expect_len = if r.n <= crate::refmodel::tables::MAX_LEN { Some(r.n as u32) } else { None };
    if g.processed_len() != expect_len {
        return Err(format!("{}: pieces {pieces:?}: processed_len {:?} but reference {:?}", V::NAME, g.processed_len(), expect_len));
    }
    let outs = compare_all_opts::<V>(&g, &r).map_err(|e| format!("{}: pieces {pieces:?} of stream {}: {e}", V::NAME, st.name()))?;
    Ok(outcomes_fp(&outs))
}

/// Enumerates all non-decreasing cut vectors of length `k` over 0..=n by index.
fn cuts_by_index(n: usize, k: usize, mut idx: u64) -> Vec<usize> {
    // combinations with repetition of k values from n+1, in lexicographic order
    fn count(n1: u64, k: u64) -> u64 {
        // C(n1 + k - 1, k)
        let mut r = 1u64;
        for i in 0..k {
            r = r * (n1 + k - 1 - i) / (i + 1);
        }
        r
    }
    let mut out = Vec::with_capacity(k);
    let mut lo = 0usize;
    for pos in 0..k {
        let remaining = (k - pos - 1) as u64;
        let mut v = lo;
        loop {
            let c = count((n + 1 - v) as u64, remaining);
            if idx < c {
                break;
            }
            idx -= c;
            v += 1;
        }
        out.push(v);
        lo = v;
    }
    out
}

fn cuts_count(n: usize, k: usize) -> u64 {
    let mut r = 1u64;
    for i in 0..k as u64 {
        r = r * (n as u64 + 1 + k as u64 - 1 - i) / (i + 1);
    }
    r
}

pub fn run(r: &mut Report, ctx: &Ctx) {
    quiet_panics();
    let quick = ctx.quick();
    #[allow(unused_variables)]
    let seed = ctx.seed;

    #[cfg(feature = "explore")]
    if ctx.want("histories") {
        use crate::explore::*;
        let horizon: u64 = if quick { 600 } else { 4096 };
        let mut pieces: Vec<u32> = vec![0, 1, 2, 3, 4, 5, 6, 7, 8, 9, 13, 64];
        if !quick {
            pieces.extend_from_slice(&[16, 17, 1000]);
        }
        let suffixes: Vec<u32> = vec![1, 3, 5, 64];
        let streams = Stream::all(seed);
        r.section(
            "histories",
            "explicit-state search (stateright BFS) over operation histories on the real generator through the public API: from every reachable state, Update(k) for every piece length in the alphabet (bytes by absolute stream offset), FinalizeAll (all 32 options, twice; must not disturb the state) and CloneSwap (continue on the clone); states merge only when the real generators' complete Debug snapshots are equal; invariant on every state: processed_len, all 32 finalizations equal the reference, and the same after every suffix in {1,3,5,64}; one model instance per (variant, stream); states = unique real states, transitions = generated successor states; non-trivial = unique states",
            &format!("horizon n <= {horizon}, pieces {:?}, 6 streams x 5 variants; all histories over the alphabet (unbounded depth)", pieces),
            true,
            |s| {
                let streams = &streams;
                let pieces = &pieces;
                let suffixes = &suffixes;
                let results = std::sync::Mutex::new(Vec::new());
                s.acc = par_for(5 * streams.len() as u64, 1, |idx, acc| {
                    let st = streams[(idx / 5) as usize];
                    fn go<V: Variant>(st: Stream, horizon: u64, pieces: &[u32], suffixes: &[u32], threads: usize) -> ExploreResult {
                        explore(GenModel::<V>::fresh(st, horizon, pieces.to_vec(), suffixes.to_vec()), threads)
                    }
                    let res: ExploreResult = with_variant!(idx % 5, go(st, horizon, pieces, suffixes, 1));
                    acc.evals += res.unique_states;
                    acc.transitions += res.generated;
                    acc.nontrivial += res.unique_states;
                    if let Some((msg, replay)) = &res.violation {
                        acc.fail(idx, "histories", msg.clone(), replay.clone());
                    } else if !res.horizon_reached {
                        acc.fail(1000 + idx, "histories", format!("MACHINERY: horizon not reached for instance {idx}"), json!({"kind": "machinery"}));
                    }
                    acc.sample(idx, || json!({"variant": VARIANT_NAMES[(idx % 5) as usize], "stream": st.name(), "unique_states": res.unique_states, "generated_states": res.generated, "max_depth": res.max_depth}));
                    results.lock().unwrap().push((idx, res.unique_states, res.generated));
                });
                // distinct observation vectors (vacuity guard), from the reference along each stream
                for st in streams.iter() {
                    let mut rg = VNormal::ref_gen();
                    for n in 0..=horizon {
                        let outs: Vec<Outcome> = Opts::all().map(|o| ref_outcome(&rg, &o)).collect();
                        s.acc.outcomes.insert(outcomes_fp(&outs));
                        rg.feed(st.byte(n));
                    }
                }
                // determinism of the search: repeat with 16 threads, counts must match
                let results = results.into_inner().unwrap();
                let recheck: Vec<u64> = if s.acc.viol.is_some() { vec![] } else if quick { vec![0, 6, 12, 18, 24, 25] } else { (0..5 * streams.len() as u64).collect() };
                for idx in recheck {
                    let st = streams[(idx / 5) as usize];
                    fn go<V: Variant>(st: Stream, horizon: u64, pieces: &[u32], suffixes: &[u32], threads: usize) -> ExploreResult {
                        explore(GenModel::<V>::fresh(st, horizon, pieces.to_vec(), suffixes.to_vec()), threads)
                    }
                    let res: ExploreResult = with_variant!(idx % 5, go(st, horizon, pieces, suffixes, 16));
                    if let Some(first) = results.iter().find(|x| x.0 == idx) {
                        if s.acc.viol.is_none() && res.violation.is_none() && (first.1 != res.unique_states) {
                            s.caps.push(format!("MACHINERY: unique state count differs between 1 and 16 threads for instance {idx}: {} vs {}", first.1, res.unique_states));
                        }
                    }
                }
                s.states = s.acc.evals;
                s.extra.insert("search".into(), json!("stateright 0.31 spawn_bfs; 1 thread per instance, re-run with 16 threads: unique-state counts equal"));
                s.extra.insert("traces_validated_against_impl".into(), json!(s.acc.transitions));
            },
        );
    }

    #[cfg(feature = "explore")]
    if ctx.want("histories-large") {
        use crate::explore::*;
        // block-sized pieces: a change that treats whole 64 / 1024 / 4096-byte blocks specially needs them
        let horizon: u64 = if quick { 9000 } else { 20000 };
        let pieces: Vec<u32> = vec![0, 1, 3, 4, 5, 63, 64, 65, 127, 128, 1000, 1024, 4095, 4096, 4097];
        let suffixes: Vec<u32> = vec![1, 4, 64];
        let insts: Vec<(usize, Stream)> = if quick {
            vec![(0, Stream::Mixed), (1, Stream::Mixed), (4, Stream::A40e)]
        } else {
            (0..5).flat_map(|v| [(v, Stream::Mixed), (v, Stream::A40e)]).collect()
        };
        r.section(
            "histories-large",
            "the same explicit-state search with block-sized piece lengths {0,1,3,4,5,63,64,65,127,128,1000,1024,4095,4096,4097} and a longer horizon, so that every combination of 'piece is / is not a multiple of 64, 1024, 4096' and tail fill level occurs in every order; states = unique real states; non-trivial = unique states",
            &format!("horizon n <= {horizon}, {} instances", insts.len()),
            true,
            |s| {
                let insts = &insts;
                let pieces = &pieces;
                let suffixes = &suffixes;
                s.acc = par_for(insts.len() as u64, 1, |idx, acc| {
                    let (v, st) = insts[idx as usize];
                    fn go<V: Variant>(st: Stream, horizon: u64, pieces: &[u32], suffixes: &[u32]) -> ExploreResult {
                        explore(GenModel::<V>::fresh(st, horizon, pieces.to_vec(), suffixes.to_vec()), 4)
                    }
                    let res: ExploreResult = with_variant!(v, go(st, horizon, pieces, suffixes));
                    acc.evals += res.unique_states;
                    acc.transitions += res.generated;
                    acc.nontrivial += res.unique_states;
                    acc.outcomes.insert(res.unique_states);
                    if let Some((msg, replay)) = &res.violation {
                        acc.fail(idx, "histories-large", msg.clone(), replay.clone());
                    } else if !res.horizon_reached {
                        acc.fail(1000 + idx, "histories-large", "MACHINERY: horizon not reached".into(), json!({"kind": "machinery"}));
                    }
                    acc.sample(idx, || json!({"variant": VARIANT_NAMES[v], "stream": st.name(), "unique_states": res.unique_states, "generated_states": res.generated, "max_depth": res.max_depth}));
                });
                s.states = s.acc.evals;
                s.extra.insert("traces_validated_against_impl".into(), json!(s.acc.transitions));
            },
        );
    }

    if ctx.want("constructors") {
        r.section(
            "constructors",
            "every way to obtain an empty generator (new(), Default::default(), a clone of a fresh one, clone_from of a fresh one into a used one) is observably the same generator: fed the same pieces they give the same processed_len and the same 32 finalizations as the reference; non-trivial = all",
            "4 constructors x 4 histories x 5 variants",
            true,
            |s| {
                fn go<V: Variant>(acc: &mut Acc)
                where
                    V::Gen: Default,
                {
                    let histories: [&[usize]; 4] = [&[], &[3, 2], &[64, 1, 0, 7], &[600]];
                    for (hi, h) in histories.iter().enumerate() {
                        let mut gens: Vec<(&'static str, V::Gen)> = vec![("new", V::new_gen()), ("default", <V::Gen as Default>::default()), ("clone-of-new", V::new_gen().clone())];
                        let mut used = V::new_gen();
                        used.update(b"some earlier, unrelated content ....");
                        used.clone_from(&V::new_gen());
                        gens.push(("clone_from-new-into-used", used));
                        let mut r = V::ref_gen();
                        let mut off = 0u64;
                        for &k in h.iter() {
                            let data = Stream::Mixed.bytes(off, k);
                            for (_, g) in gens.iter_mut() {
                                g.update(&data);
                            }
                            r.feed_all(&data);
                            off += k as u64;
                        }
                        for (name, g) in gens.iter() {
                            acc.evals += 1;
                            acc.transitions += 33;
                            acc.nontrivial += 1;
                            match crate::explore_free::judge_state_free::<V>(g, &r) {
                                Ok(()) => {
                                    acc.outcomes.insert(hi as u64);
                                }
                                Err(e) => {
                                    acc.fail(hi as u64, "constructors", format!("{} generator obtained by {name}, history {:?}: {e}", V::NAME, h), json!({"kind": "constructor", "variant": V::NAME, "constructor": name}));
                                    return;
                                }
                            }
                        }
                    }
                    acc.sample(0, || json!({"variant": V::NAME, "constructors": ["new", "default", "clone-of-new", "clone_from-new-into-used"]}));
                }
                go::<VShort>(&mut s.acc);
                go::<VNormal>(&mut s.acc);
                go::<VNormalLC>(&mut s.acc);
                go::<VLong>(&mut s.acc);
                go::<VLongLC>(&mut s.acc);
            },
        );
    }
    if ctx.want("long-run") {
        let total: u64 = if quick { 3 << 20 } else { 40 << 20 };
        r.section(
            "long-run",
            "longer feeds in a rotation of piece lengths {1, 3, 64, 4096, 65537, 5, 1048576, 0, 2} compared with the byte-at-a-time reference at every power-of-two total (and one byte before / after it) and at the end: processed_len and all 32 finalizations; a size- or total-dependent fast path shows here; non-trivial = checkpoints",
            &format!("{} MiB x 2 streams x 5 variants", total >> 20),
            true,
            |s| {
                s.acc = par_for(10, 1, |idx, acc| {
                    let st = [Stream::Mixed, Stream::Alpha][(idx / 5) as usize];
                    fn go<V: Variant>(st: Stream, total: u64, acc: &mut Acc, key: u64) {
                        let sizes = [1usize, 3, 64, 4096, 65537, 5, 1 << 20, 0, 2];
                        let mut g = V::new_gen();
                        let mut r = V::ref_gen();
                        let mut buf = vec![0u8; 1 << 20];
                        let mut off = 0u64;
                        let mut i = 0usize;
                        let mut next_cp: u64 = 1 << 10;
                        while off < total {
                            // never step over a checkpoint: cut the piece there
                            let want = sizes[i % sizes.len()] as u64;
                            i += 1;
                            let k = want.min(total - off).min(if off < next_cp - 1 { next_cp - 1 - off } else if off < next_cp { 1 } else { 1 }) as usize;
                            st.fill(off, &mut buf[..k]);
                            g.update(&buf[..k]);
                            r.feed_all(&buf[..k]);
                            off += k as u64;
                            acc.transitions += 1;
                            if off + 1 == next_cp || off == next_cp || off == next_cp + 1 || off == total {
                                acc.evals += 1;
                                acc.nontrivial += 1;
                                match crate::explore_free::judge_state_free::<V>(&g, &r) {
                                    Ok(()) => {
                                        acc.outcomes.insert(off);
                                    }
                                    Err(e) => {
                                        acc.fail(key + off, "long-run", format!("{} {} after {off} bytes in the piece rotation: {e}", V::NAME, st.name()), json!({"kind": "long-run", "variant": V::NAME, "stream": st.name(), "n": off}));
                                        return;
                                    }
                                }
                                if off == next_cp + 1 {
                                    next_cp *= 2;
                                }
                            }
                        }
                        acc.sample(key, || json!({"variant": V::NAME, "stream": st.name(), "fed": off, "pieces": i}));
                    }
                    with_variant!(idx % 5, go(st, total, acc, idx << 40))
                });
            },
        );
    }

    if ctx.want("piece-thresholds") {
        // a fast path keyed on "this piece is at least 2^k bytes" needs a piece at that threshold, in every tail fill level
        let kmax: u32 = if quick { 20 } else { 24 };
        let prefills: [usize; 9] = [0, 1, 2, 3, 4, 5, 6, 7, 67]; // also every address alignment mod 8 of the large piece
        let deltas: [i64; 5] = [-1, 0, 1, 4, 5];
        let ks: Vec<u32> = (5..=kmax).collect();
        let per_variant = (2 * prefills.len() * deltas.len() * ks.len()) as u64;
        r.section(
            "piece-thresholds",
            "one large update at every power-of-two threshold: pre-fill of p bytes (every tail fill level), then ONE piece of 2^k + d bytes, then 3 more bytes or nothing (so the large call is also the last one), on a fresh real generator vs the byte-at-a-time reference fed the same bytes: processed_len and all 32 finalizations; distinct by enumeration; non-trivial = all",
            &format!("k in 5..={kmax}, d in {{-1,0,1,4,5}}, p in {{0..7,67}}, 5 variants, stream S0 (S3 for d = 0)"),
            true,
            |s| {
                let ks = &ks;
                // largest pieces first so that the work is balanced
                s.acc = par_for(per_variant * 5, 1, |idx, acc| {
                    let v = (idx % 5) as usize;
                    let (i, with_suffix) = (idx / 10, (idx / 5) % 2 == 1);
                    let d = deltas[(i % 5) as usize];
                    let p = prefills[((i / 5) % 9) as usize];
                    let k = ks[ks.len() - 1 - (i / 45) as usize];
                    let piece = ((1i64 << k) + d) as usize;
                    let st = if d == 0 { Stream::A40e } else { Stream::Mixed };
                    let pieces_all = [p, piece, 3];
                    let pieces = &pieces_all[..if with_suffix { 3 } else { 2 }];
                    acc.evals += 1;
                    acc.transitions += 3 + 33;
                    acc.nontrivial += 1;
                    match with_variant!(v, judge_pieces(st, pieces)) {
                        Ok(fp) => {
                            acc.outcomes.insert(fp);
                            if idx % 211 == 0 {
                                acc.sample(idx, || json!({"variant": VARIANT_NAMES[v], "stream": st.name(), "pieces": pieces}));
                            }
                        }
                        Err(e) => acc.fail(idx, "piece-thresholds", e, json!({"kind": "pieces", "variant": VARIANT_NAMES[v], "stream": st.name(), "pieces": pieces})),
                    }
                });
            },
        );
    }

    if ctx.want("splits") {
        let streams = [Stream::Mixed, Stream::A40e, Stream::Runs];
        let plan: Vec<(usize, usize)> = if quick { vec![(13, 3), (64, 3), (140, 2)] } else { vec![(13, 4), (64, 4), (140, 3), (600, 2)] };
        for (len, k) in plan {
            let total = cuts_count(len, k);
            r.section(
                &format!("splits-{len}x{k}"),
                "every way to split a fixed input at up to k cut points (empty pieces allowed) into successive update calls vs a single update: processed_len and all 32 finalizations (differential, no expected values); distinct by enumeration; non-trivial = all",
                &format!("{len} bytes, {k} cuts: {total} splits x 3 streams x 5 variants"),
                true,
                |s| {
                    s.acc = par_for(total * 15, 64, |idx, acc| {
                        let v = (idx % 5) as usize;
                        let st = streams[((idx / 5) % 3) as usize];
                        let cuts = cuts_by_index(len, k, idx / 15);
                        let data = st.bytes(0, len);
                        acc.evals += 1;
                        acc.transitions += (k + 1) as u64 + 33;
                        acc.nontrivial += 1;
                        let res = with_variant!(v, judge_split(&data, &cuts));
                        match res {
                            Ok(fp) => {
                                acc.outcomes.insert(fp);
                                if idx % 100_003 == 0 {
                                    acc.sample(idx, || json!({"variant": VARIANT_NAMES[v], "stream": st.name(), "len": len, "cuts": cuts}));
                                }
                            }
                            Err(e) => acc.fail(idx, "splits", e, json!({"kind": "split", "variant": VARIANT_NAMES[v], "stream": st.name(), "len": len, "cuts": cuts})),
                        }
                    });
                },
            );
        }
    }
    crate::seq::section(r, ctx, "generate");
}

pub fn replay(case: &Value) -> Result<(), String> {
    quiet_panics();
    let v = case["variant"].as_str().ok_or("variant")?;
    let st = Stream::from_name(case["stream"].as_str().ok_or("stream")?).ok_or("stream")?;
    match case["kind"].as_str().unwrap_or("") {
        "split" => {
            let len = case["len"].as_u64().ok_or("len")? as usize;
            let cuts: Vec<usize> = case["cuts"].as_array().ok_or("cuts")?.iter().map(|x| x.as_u64().unwrap() as usize).collect();
            let data = st.bytes(0, len);
            with_variant!(v, judge_split(&data, &cuts)).map(|_| ())
        }
        "pieces" => {
            let pieces: Vec<usize> = case["pieces"].as_array().ok_or("pieces")?.iter().map(|x| x.as_u64().unwrap() as usize).collect();
            with_variant!(v, judge_pieces(st, &pieces)).map(|_| ())
        }
        #[cfg(feature = "explore")]
        "history" => {
            let acts = crate::explore::actions_from_json(&case["actions"]);
            let suffixes: Vec<u32> = case["suffixes"].as_array().map(|a| a.iter().map(|x| x.as_u64().unwrap() as u32).collect()).unwrap_or_default();
            println!("history: {acts:?}");
            fn go<V: Variant>(st: Stream, acts: &[crate::explore::Act], suffixes: &[u32]) -> Result<(), String> {
                crate::explore::replay_history::<V>(st, acts, suffixes)
            }
            with_variant!(v, go(st, &acts, &suffixes))
        }
        k => Err(format!("unknown replay kind {k} (history replays need the explore build)")),
    }
}
