//! C17 — the safe API is total and memory-safe in every configuration.
//!
//! Model checking decides this through monitors attached to explored executions:
//! the invariant monitor (hook), panic classification (debug-assertions + overflow-checks
//! builds run the other checks' enumerations; see bin/plan.py), and child processes for
//! contract-violating readers in builds where `invariant!` is a real optimiser assumption.

use crate::checks::c12::{c12_alphabet, script_key};
use crate::checks::codec::*;
use crate::checks::common::*;
use crate::readers::*;
use crate::report::*;
use crate::streams::Stream;
use crate::variant::*;
use crate::{with_variant, Ctx};
use serde_json::{json, Value};

pub fn lie_alphabet() -> Vec<Ans> {
    vec![Ans::MisreportPlus1, Ans::MisreportMax, Ans::MisreportDouble, Ans::DeliverThenMisreport(0), Ans::DeliverThenMisreport(5)]
}

/// Scripts with at most `maxd` deviations of which at least one is a lie.
pub fn lying_scripts(totals: &[u64], maxd: usize) -> Vec<Script> {
    let mut alphabet = c12_alphabet();
    alphabet.extend(lie_alphabet());
    let mut out = Vec::new();
    for &t in totals {
        for d in 1..=maxd {
            for sc in scripts_with(t, default_steps(t) + d, &alphabet, d) {
                if sc.deviations.iter().any(|(_, a)| a.is_lie()) {
                    out.push(sc);
                }
            }
        }
    }
    out
}

/// Runs one script in this process. Returns "ok" / "err" / "panic:<message>".
pub fn run_script_here<V: Variant>(sc: &Script) -> String {
    let mut rd = ScriptReader::new(Stream::Mixed, sc.clone());
    match catch(|| V::hash_stream(&mut rd)) {
        Ok(Ok(_)) => "ok".into(),
        Ok(Err(_)) => "err".into(),
        Err(p) => format!("panic:{p}"),
    }
}

pub fn run_script_dyn(variant: &str, sc: &Script) -> String {
    with_variant!(variant, run_script_here(sc))
}

pub fn clean_reader_panic(msg: &str) -> bool {
    // "A reader that misreports how much it read may at worst cause a clean panic": the slice-bounds panic of the
    // pinned code, but equally an explicit assertion - any ordinary unwinding panic. Not clean: what the property
    // lists as forbidden for every caller (arithmetic overflow) and the runtime's own UB detectors.
    let forbidden = ["with overflow", "unsafe precondition", "misaligned pointer", "null pointer dereference", "unreachable code"];
    !forbidden.iter().any(|f| msg.contains(f))
}

pub fn run(r: &mut Report, ctx: &Ctx) {
    quiet_panics();
    let quick = ctx.quick();

    #[cfg(fast_tlsh_verif)]
    {
        if ctx.want("invariants-lengths") {
            r.section(
                "invariants-lengths",
                "invariant monitor (hook: every invariant!() is an observable event in every feature configuration) over FuzzyHashLengthEncoding::new on every u32: the three optimiser assumptions in the length encoder must evaluate to true; non-trivial = lengths in 1..=MAX (where the invariants are evaluated)",
                "len in 0..2^32 (complete domain)",
                true,
                |s| {
                    tlsh::verif::invariant_reset();
                    const BLOCK: u64 = 1 << 20;
                    s.acc = par_for((1u64 << 32) / BLOCK, 1, |b, acc| {
                        let mut x = 0u32;
                        for l in b * BLOCK..(b + 1) * BLOCK {
                            if let Some(e) = tlsh::length::FuzzyHashLengthEncoding::new(l as u32) {
                                x = x.wrapping_add(e.value() as u32);
                            }
                        }
                        acc.evals += BLOCK;
                        acc.transitions += BLOCK;
                        acc.outcomes.insert((x % 7) as u64);
                        let (_, f) = tlsh::verif::invariant_counts();
                        if f > 0 {
                            acc.fail(b, "invariants-lengths", "an invariant!() in the length encoder evaluated to false".into(), json!({"kind": "invariant", "key": "invariant-length"}));
                        }
                    });
                    s.acc.nontrivial = crate::refmodel::tables::MAX_LEN;
                    let (_, fails) = tlsh::verif::invariant_counts();
                    let mut buf = [0u8; 192];
                    let n = tlsh::verif::invariant_first_failure(&mut buf);
                    if fails > 0 {
                        s.acc.fail(0, "invariants-lengths", format!("{fails} false invariant!() evaluations; first: {}", String::from_utf8_lossy(&buf[..n])), json!({"kind": "invariant", "key": "invariant-length"}));
                    }
                    // liveness of the monitor
                    tlsh::verif::invariant_count_evaluations(true);
                    let _ = tlsh::length::FuzzyHashLengthEncoding::new(12345);
                    tlsh::verif::invariant_count_evaluations(false);
                    let (ev, _) = tlsh::verif::invariant_counts();
                    s.extra.insert("monitor_live_probe_evaluations".into(), json!(ev));
                    s.acc.sample(0, || json!({"probe_len": 12345, "invariant_evaluations_counted": ev}));
                    if ev == 0 {
                        s.caps.push("MACHINERY: invariant monitor not live".into());
                    }
                },
            );
        }
        if ctx.want("invariants-binary") {
            r.section(
                "invariants-binary",
                "invariant monitor over TryFrom<&[u8; N]> / TryFrom<&[u8]> on every one-byte-deviation value, every header window and every slice length 0..=2*SIZE, and over update on piece lengths 0..=9: no invariant!() evaluates to false; non-trivial = all",
                "all values of C06's enumeration x 5 variants",
                true,
                |s| {
                    tlsh::verif::invariant_reset();
                    fn go<V: Variant>(acc: &mut Acc) {
                        use tlsh::GeneratorType;
                        let n1 = value_count::<V>();
                        let n2 = header_window_count::<V>();
                        for idx in 0..n1 + n2 {
                            let b = if idx < n1 { value_by_index::<V>(idx) } else { header_window_by_index::<V>(idx - n1) };
                            let _ = V::from_slice(&b);
                            let _ = V::from_array(&b);
                            acc.evals += 1;
                            acc.transitions += 2;
                            acc.nontrivial += 1;
                        }
                        for len in 0..=2 * V::SIZE {
                            let _ = V::from_slice(&vec![7u8; len]);
                            acc.evals += 1;
                            acc.transitions += 1;
                        }
                        let mut g = V::new_gen();
                        for k in 0..=9usize {
                            for _ in 0..3 {
                                g.update(&vec![k as u8; k]);
                                acc.transitions += 1;
                            }
                        }
                        acc.outcomes.insert(g.processed_len().unwrap_or(0) as u64);
                    }
                    go::<VShort>(&mut s.acc);
                    go::<VNormal>(&mut s.acc);
                    go::<VNormalLC>(&mut s.acc);
                    go::<VLong>(&mut s.acc);
                    go::<VLongLC>(&mut s.acc);
                    let (_, fails) = tlsh::verif::invariant_counts();
                    if fails > 0 {
                        let mut buf = [0u8; 192];
                        let n = tlsh::verif::invariant_first_failure(&mut buf);
                        s.acc.fail(0, "invariants-binary", format!("{fails} false invariant!() evaluations; first: {}", String::from_utf8_lossy(&buf[..n])), json!({"kind": "invariant", "key": "invariant-binary"}));
                    }
                    s.acc.sample(0, || json!({"false_invariants": fails}));
                },
            );
        }
        if ctx.want("lying-readers-monitored") {
            let totals: Vec<u64> = if quick { vec![0, 600, BUF as u64 + 1] } else { vec![0, 9, 600, BUF as u64 - 1, BUF as u64 + 1, 2 * BUF as u64 + 7] };
            let scripts = lying_scripts(&totals, 2);
            r.section(
                "lying-readers-monitored",
                "contract-violating Read implementations (report buf.len()+1, usize::MAX, 2*buf.len(), or deliver k and report k+buf.len()), alone and combined with every answer of the C12 alphabet, <= 2 deviations: allowed outcomes are Ok, Err or the clean slice-bounds panic; the invariant monitor must not see a false invariant!() (such an expression is handed to the optimiser as unreachable under feature 'unsafe', so reaching it with false through the safe API is undefined behaviour there); run sequentially so that each false invariant is attributed to its script; non-trivial = scripts whose lie was consumed",
                &format!("totals {:?}, <= 2 deviations with >= 1 lie, variants Normal and Short: {} scripts", totals, scripts.len()),
                true,
                |s| {
                    // pass 1: all scripts in parallel; the monitor is global, so a false invariant
                    // is only detected here and attributed in a sequential pass 2
                    tlsh::verif::invariant_reset();
                    let scripts_ref = &scripts;
                    let acc = par_for(scripts.len() as u64 * 2, 8, |idx, acc| {
                        let sc = &scripts_ref[(idx / 2) as usize];
                        let v = ["Normal", "Short"][(idx % 2) as usize];
                        let out = run_script_dyn(v, sc);
                        acc.evals += 1;
                        acc.transitions += 1;
                        acc.nontrivial += 1;
                        acc.outcomes.insert(crate::report::fnv(out.split(':').next().unwrap().as_bytes()));
                        if let Some(msg) = out.strip_prefix("panic:") {
                            if !clean_reader_panic(msg) {
                                acc.fail(idx, "lying-readers-monitored", format!("{v}: lying reader caused a panic that is not a clean one (arithmetic overflow or a runtime UB check): {msg}"), json!({"kind": "lying-script", "key": format!("panic-{}", script_key(sc)), "variant": v, "script": sc.to_json()}));
                            }
                        }
                        if idx % 97 == 0 {
                            acc.sample(idx, || json!({"variant": v, "script": sc.to_json(), "outcome": out}));
                        }
                    });
                    s.acc = acc;
                    let (_, fails) = tlsh::verif::invariant_counts();
                    if fails > 0 {
                        for (i, sc) in scripts.iter().enumerate() {
                            for v in ["Normal", "Short"] {
                                tlsh::verif::invariant_reset();
                                let out = run_script_dyn(v, sc);
                                let (_, f) = tlsh::verif::invariant_counts();
                                if f > 0 {
                                    let mut buf = [0u8; 192];
                                    let n = tlsh::verif::invariant_first_failure(&mut buf);
                                    s.acc.fail(i as u64 * 2, "lying-readers-monitored", format!("{v}: a contract-violating reader makes an optimiser assumption false: invariant!() at {} (outcome here: {out}); with feature 'unsafe' this is unreachable_unchecked()", String::from_utf8_lossy(&buf[..n])),
                                               json!({"kind": "lying-script", "key": format!("invariant-false-{}", script_key(sc)), "variant": v, "script": sc.to_json()}));
                                    return;
                                }
                            }
                        }
                        s.acc.fail(0, "lying-readers-monitored", format!("{fails} false invariant!() evaluations during the parallel pass could not be attributed to a script"), json!({"kind": "invariant", "key": "invariant-unattributed"}));
                    }
                },
            );
        }
    }

    // In builds WITHOUT the hook the invariants are what the feature set makes them
    // (debug_assert / unreachable_unchecked): run each lying script in a child process.
    #[cfg(not(fast_tlsh_verif))]
    if ctx.want("lying-readers-children") {
        let totals: Vec<u64> = if quick { vec![0, 600] } else { vec![0, 9, 600, BUF as u64 + 1] };
        let scripts = lying_scripts(&totals, if quick { 1 } else { 2 });
        r.section(
            "lying-readers-children",
            "the same contract-violating reader scripts, each run in a fresh child process of this very build (no hook: invariant!() is debug_assert / unreachable_unchecked as configured): the child must exit normally with outcome Ok, Err or the clean bounds panic; death by a signal (illegal instruction, segmentation fault, abort) is undefined behaviour made visible; non-trivial = all",
            &format!("totals {:?}: {} scripts x 2 variants, one process each", totals, scripts.len()),
            true,
            |s| {
                let exe = std::env::current_exe().expect("current_exe");
                let scripts = &scripts;
                let exe = &exe;
                s.acc = par_for(scripts.len() as u64 * 2, 4, |idx, acc| {
                    use std::os::unix::process::ExitStatusExt;
                    let sc = &scripts[(idx / 2) as usize];
                    let v = ["Normal", "Short"][(idx % 2) as usize];
                    acc.evals += 1;
                    acc.transitions += 1;
                    acc.nontrivial += 1;
                    let out = std::process::Command::new(exe).args(["child-reader", v, &sc.to_json().to_string()]).output();
                    match out {
                        Err(e) => acc.fail(idx, "lying-readers-children", format!("MACHINERY: cannot spawn child: {e}"), json!({"kind": "machinery"})),
                        Ok(o) => {
                            let text = String::from_utf8_lossy(&o.stdout).trim().to_string();
                            if let Some(sig) = o.status.signal() {
                                acc.fail(idx, "lying-readers-children", format!("{v}: child process died with signal {sig} on a contract-violating reader (undefined behaviour): script {}", sc.to_json()),
                                         json!({"kind": "lying-script-child", "key": format!("signal-{}", script_key(sc)), "variant": v, "script": sc.to_json()}));
                            } else if o.status.code() != Some(0) {
                                acc.fail(idx, "lying-readers-children", format!("{v}: child exited with {:?}: {text} {}", o.status.code(), String::from_utf8_lossy(&o.stderr)),
                                         json!({"kind": "lying-script-child", "key": format!("exit-{}", script_key(sc)), "variant": v, "script": sc.to_json()}));
                            } else if let Some(msg) = text.strip_prefix("panic:") {
                                if !clean_reader_panic(msg) {
                                    acc.fail(idx, "lying-readers-children", format!("{v}: unexpected panic: {msg}"), json!({"kind": "lying-script-child", "key": format!("panic-{}", script_key(sc)), "variant": v, "script": sc.to_json()}));
                                }
                                acc.outcomes.insert(2);
                            } else {
                                acc.outcomes.insert((text == "ok") as u64);
                            }
                            if idx % 53 == 0 {
                                acc.sample(idx, || json!({"variant": v, "script": sc.to_json(), "child_outcome": text}));
                            }
                        }
                    }
                });
            },
        );
    }

    if ctx.want("adversarial-args") {
        r.section(
            "adversarial-args",
            "remaining safe entry points with boundary arguments under catch_unwind: quartile(i) for i in {N-1, N, N+1, usize::MAX} (only i >= N may panic), store_into_* with buffers of every length 0..=4 and empty, from_str_bytes on empty/huge inputs, compare_with on empty strings, update with empty and 1-byte slices 10^4 times; panics other than the documented out-of-range bucket index are violations; non-trivial = all",
            "5 variants x boundary arguments",
            true,
            |s| {
                fn go<V: Variant>(acc: &mut Acc) {
                    use tlsh::{FuzzyHashType, GeneratorType};
                    let mut b: Vec<u8> = (0..V::SIZE).map(|i| (i * 3) as u8).collect();
                    if STRICT {
                        if V::NB == 48 {
                            b[0] %= 49;
                        }
                        b[V::CK] %= 170;
                    }
                    let h = match V::from_slice(&b) {
                        Ok(h) => h,
                        Err(e) => {
                            acc.fail(0, "adversarial-args", format!("{}: cannot construct a hash: {e:?}", V::NAME), json!({"kind": "args", "key": "args"}));
                            return;
                        }
                    };
                    let mut check = |what: &str, may_panic: bool, f: &mut dyn FnMut()| {
                        acc.evals += 1;
                        acc.transitions += 1;
                        acc.nontrivial += 1;
                        let r = catch(|| f());
                        acc.outcomes.insert(r.is_ok() as u64);
                        if let Err(p) = r {
                            if !may_panic {
                                acc.fail(acc.evals, "adversarial-args", format!("{}: {what} panicked: {p}", V::NAME), json!({"kind": "args", "key": format!("args-{what}")}));
                            }
                        } else if may_panic && what.starts_with("quartile(>=N") {
                            acc.fail(acc.evals, "adversarial-args", format!("{}: {what} did not panic", V::NAME), json!({"kind": "args", "key": format!("args-{what}")}));
                        }
                    };
                    check("quartile(N-1)", false, &mut || { let _ = V::quartile(&h, V::NB - 1); });
                    check("quartile(>=N: N)", true, &mut || { let _ = V::quartile(&h, V::NB); });
                    check("quartile(>=N: N+1)", true, &mut || { let _ = V::quartile(&h, V::NB + 1); });
                    check("quartile(>=N: MAX)", true, &mut || { let _ = V::quartile(&h, usize::MAX); });
                    for len in 0..=4usize {
                        check("store_into_bytes(small)", false, &mut || { let mut buf = vec![0u8; len]; let _ = h.store_into_bytes(&mut buf); });
                        check("store_into_str_bytes(small)", false, &mut || { let mut buf = vec![0u8; len]; let _ = h.store_into_str_bytes(&mut buf, tlsh::HexStringPrefix::WithVersion); let _ = h.store_into_str_bytes(&mut buf, tlsh::HexStringPrefix::Empty); });
                    }
                    check("from_str_bytes(empty)", false, &mut || { for (m, _) in modes() { let _ = <V::Hash as FuzzyHashType>::from_str_bytes(b"", m); } });
                    check("from_str_bytes(1 MiB)", false, &mut || { let big = vec![b'A'; 1 << 20]; for (m, _) in modes() { let _ = <V::Hash as FuzzyHashType>::from_str_bytes(&big, m); } });
                    check("from_str_bytes(T)", false, &mut || { for (m, _) in modes() { let _ = <V::Hash as FuzzyHashType>::from_str_bytes(b"T", m); let _ = <V::Hash as FuzzyHashType>::from_str_bytes(b"T1", m); } });
                    check("compare_with(empty)", false, &mut || { let _ = V::compare_with("", ""); });
                    check("update(empty x 10^4)", false, &mut || { let mut g = V::new_gen(); for _ in 0..10_000 { g.update(&[]); } let _ = g.finalize(); });
                    check("update(1 byte x 10^4)", false, &mut || { let mut g = V::new_gen(); for i in 0..10_000u32 { g.update(&[i as u8]); } let _ = g.finalize(); });
                    check("hash_buf(empty)", false, &mut || { let _ = V::hash_buf(&[]); });
                    acc.sample(1, || json!({"variant": V::NAME, "entry_points": "quartile, store_into_*, from_str_bytes, compare_with, update, hash_buf"}));
                }
                go::<VShort>(&mut s.acc);
                go::<VNormal>(&mut s.acc);
                go::<VNormalLC>(&mut s.acc);
                go::<VLong>(&mut s.acc);
                go::<VLongLC>(&mut s.acc);
            },
        );
    }
}

pub fn replay(case: &Value) -> Result<(), String> {
    quiet_panics();
    match case["kind"].as_str().unwrap_or("") {
        "lying-script" | "lying-script-child" => {
            let v = case["variant"].as_str().ok_or("variant")?;
            let sc = Script::from_json(&case["script"]).ok_or("script")?;
            println!("script: {}", sc.to_json());
            #[cfg(fast_tlsh_verif)]
            {
                tlsh::verif::invariant_reset();
                let out = run_script_dyn(v, &sc);
                let (_, fails) = tlsh::verif::invariant_counts();
                println!("outcome: {out}; false invariants: {fails}");
                if fails > 0 {
                    let mut buf = [0u8; 192];
                    let n = tlsh::verif::invariant_first_failure(&mut buf);
                    return Err(format!("optimiser assumption made false by a reader: {}", String::from_utf8_lossy(&buf[..n])));
                }
                if let Some(m) = out.strip_prefix("panic:") {
                    if !clean_reader_panic(m) {
                        return Err(format!("unexpected panic: {m}"));
                    }
                }
                Ok(())
            }
            #[cfg(not(fast_tlsh_verif))]
            {
                use std::os::unix::process::ExitStatusExt;
                let exe = std::env::current_exe().map_err(|e| e.to_string())?;
                let o = std::process::Command::new(exe).args(["child-reader", v, &sc.to_json().to_string()]).output().map_err(|e| e.to_string())?;
                println!("child: status {:?} stdout {}", o.status, String::from_utf8_lossy(&o.stdout));
                if let Some(sig) = o.status.signal() {
                    return Err(format!("child died with signal {sig}"));
                }
                Ok(())
            }
        }
        k => Err(format!("replay kind {k}: re-run the check")),
    }
}
