//! C18 — core operations never allocate; the crate builds without std and alloc.
//! (The no-std build obligations are run by the driver: see bin/check.)

use crate::alloc_counter::armed;
use crate::checks::c01::{short_string, short_string_count};
use crate::checks::c02::mode_of;
use crate::checks::codec::*;
use crate::checks::common::*;
use crate::refmodel::*;
use crate::report::*;
use crate::streams::Stream;
use crate::variant::*;
use crate::{with_variant, Ctx};
use serde_json::{json, Value};
use tlsh::hash::checksum::FuzzyHashChecksum;
use tlsh::{FuzzyHashType, GeneratorType, HexStringPrefix};

/// Generator operations on `data`, armed. Returns allocator calls.
pub fn gen_ops_allocs<V: Variant>(data: &[u8], pieces: &[usize]) -> (u64, &'static str) {
    let opts: Vec<tlsh::GeneratorOptions> = Opts::all().map(|o| real_opts(&o)).collect();
    let mut worst = (0u64, "");
    let mut note = |n: u64, what: &'static str| {
        if n > worst.0 {
            worst = (n, what);
        }
    };
    let (mut g, n) = armed(|| V::new_gen());
    note(n, "new");
    let mut off = 0usize;
    let mut pi = 0usize;
    while off < data.len() {
        let k = pieces[pi % pieces.len()].min(data.len() - off);
        pi += 1;
        let slice = &data[off..off + k];
        let ((), n) = armed(|| g.update(slice));
        note(n, "update");
        off += k;
    }
    let (_, n) = armed(|| g.processed_len());
    note(n, "processed_len");
    for o in &opts {
        let (res, n) = armed(|| g.finalize_with_options(o));
        note(n, "finalize_with_options");
        let _ = res;
    }
    let (res, n) = armed(|| g.finalize());
    note(n, "finalize");
    let _ = res;
    let (c, n) = armed(|| g.clone());
    note(n, "clone");
    let (_, n) = armed(move || drop(c));
    note(n, "drop(generator)");
    worst
}

/// Hash-level operations on a binary value, armed.
pub fn hash_ops_allocs<V: Variant>(bytes: &[u8], other: &[u8]) -> (u64, &'static str) {
    let mut worst = (0u64, "");
    let mut note = |n: u64, what: &'static str| {
        if n > worst.0 {
            worst = (n, what);
        }
    };
    let (h, n) = armed(|| V::from_slice(bytes));
    note(n, "TryFrom<&[u8]>");
    let (_, n) = armed(|| V::from_array(bytes));
    note(n, "TryFrom<&[u8; N]>");
    let (_, n) = armed(|| V::from_slice(&bytes[1..]));
    note(n, "TryFrom<&[u8]> (rejecting)");
    let h = match h {
        Ok(h) => h,
        Err(_) => return worst,
    };
    let o = match V::from_slice(other) {
        Ok(o) => o,
        Err(_) => h,
    };
    let mut buf = [0u8; 160];
    let (_, n) = armed(|| h.store_into_bytes(&mut buf));
    note(n, "store_into_bytes");
    let (_, n) = armed(|| h.store_into_bytes(&mut buf[..3]));
    note(n, "store_into_bytes (too small)");
    let (_, n) = armed(|| h.store_into_str_bytes(&mut buf, HexStringPrefix::WithVersion));
    note(n, "store_into_str_bytes");
    let text: Vec<u8> = buf[..V::STRLEN].to_vec();
    let (_, n) = armed(|| h.store_into_str_bytes(&mut buf, HexStringPrefix::Empty));
    note(n, "store_into_str_bytes(Empty)");
    for (m, _) in modes() {
        let (_, n) = armed(|| <V::Hash as FuzzyHashType>::from_str_bytes(&text, m));
        note(n, "from_str_bytes (accepting)");
        let (_, n) = armed(|| <V::Hash as FuzzyHashType>::from_str_bytes(&text[..text.len() - 1], m));
        note(n, "from_str_bytes (wrong length)");
    }
    let lower_text: Vec<u8> = text.iter().enumerate().map(|(i, c)| if i >= 2 { c.to_ascii_lowercase() } else { *c }).collect();
    let mixed_text: Vec<u8> = text.iter().enumerate().map(|(i, c)| if i >= 2 && i % 3 == 0 { c.to_ascii_lowercase() } else { *c }).collect();
    for t in [&lower_text, &mixed_text] {
        let (_, n) = armed(|| <V::Hash as FuzzyHashType>::from_str_bytes(t, None));
        note(n, "from_str_bytes (accepting, lower/mixed case)");
        let (_, n) = armed(|| <V::Hash as FuzzyHashType>::from_str_bytes(&t[2..], None));
        note(n, "from_str_bytes (accepting, lower/mixed case, no prefix)");
        if let Ok(ts) = std::str::from_utf8(t) {
            let (_, n) = armed(|| ts.parse::<V::Hash>());
            note(n, "FromStr (lower/mixed case)");
        }
    }
    let mut bad = text.clone();
    for pos in [0usize, 2, 2 + V::CK * 2, V::STRLEN - 1] {
        bad[pos] = b'g';
        let (_, n) = armed(|| <V::Hash as FuzzyHashType>::from_str_bytes(&bad, None));
        note(n, "from_str_bytes (rejecting)");
        bad[pos] = text[pos];
    }
    let t = std::str::from_utf8(&text).unwrap_or("");
    let (_, n) = armed(|| t.parse::<V::Hash>());
    note(n, "FromStr");
    for wl in [true, false] {
        let (_, n) = armed(|| h.compare_with_config(&o, mode_of(wl)));
        note(n, "compare_with_config");
    }
    let (_, n) = armed(|| h.compare(&o));
    note(n, "compare");
    let (_, n) = armed(|| <V::Hash as FuzzyHashType>::max_distance(mode_of(true)));
    note(n, "max_distance");
    let (_, n) = armed(|| {
        let c = h.checksum();
        let _ = c.is_valid();
        let _ = c.compare(o.checksum());
        let l = h.length();
        let _ = (l.value(), l.is_valid(), l.range(), l.compare(o.length()));
        let q = h.qratios();
        let _ = (q.value(), q.q1ratio(), q.q2ratio(), q.compare(o.qratios()));
        let _ = V::quartile(&h, 0) + V::quartile(&h, V::NB - 1);
    });
    note(n, "accessors");
    let mut c = h;
    let (_, n) = armed(|| c.clear_checksum());
    note(n, "clear_checksum");
    let (_, n) = armed(|| V::compare_with(t, t));
    note(n, "compare_with (strings)");
    let lower = t.to_ascii_lowercase();
    for (l, r) in [(t, &t[2..]), (&t[2..], lower.as_str()), (t, ""), ("", t), ("TNULL", "TNULL"), (&t[1..], t), (lower.as_str(), t), (t, "T1zz")] {
        let (_, n) = armed(|| V::compare_with(l, r));
        note(n, "compare_with (strings, error paths)");
    }
    if V::NAME == "Normal" {
        let (_, n) = armed(|| tlsh::compare(t, "TNULL"));
        note(n, "compare (strings, error path)");
    }
    worst
}

pub fn run(r: &mut Report, ctx: &Ctx) {
    quiet_panics();
    let quick = ctx.quick();

    if ctx.want("counter-live") {
        r.section(
            "counter-live",
            "vacuity guard: the counting allocator sees the documented allocators (to_string, Vec::with_capacity, hash_stream's 1 MiB buffer) and sees nothing for pure arithmetic; non-trivial = all",
            "4 probes",
            true,
            |s| {
                let h = VNormal::from_slice(&[0u8; 35]);
                let (_, a) = armed(|| h.as_ref().map(|h| h.to_string()));
                let (_, b) = armed(|| Vec::<u8>::with_capacity(100));
                let (_, c) = armed(|| {
                    let mut rd = std::io::Cursor::new(vec![1u8; 10]);
                    VNormal::hash_stream(&mut rd).is_ok()
                });
                let (_, d) = armed(|| std::hint::black_box(3u64) * 7);
                s.acc.evals = 4;
                s.acc.transitions = 4;
                s.acc.nontrivial = 4;
                s.acc.outcomes.insert(a);
                s.acc.outcomes.insert(100 + d);
                s.acc.sample(0, || json!({"to_string_allocator_calls": a, "vec_with_capacity": b, "hash_stream": c, "arithmetic": d}));
                if a == 0 || b == 0 || c == 0 || d != 0 {
                    s.caps.push(format!("MACHINERY: allocation counter not live: to_string={a} vec={b} hash_stream={c} arithmetic={d}"));
                }
            },
        );
    }
    if ctx.want("generator-ops") {
        let alpha = [0x00u8, 0x41, 0x7f, 0xff];
        let maxlen = if quick { 6 } else { 8 };
        let count = short_string_count(4, maxlen);
        r.section(
            "generator-ops",
            "allocator calls (alloc, dealloc, realloc, alloc_zeroed) counted on the calling thread while armed around each of new, update (piece rotation), processed_len, finalize_with_options (all 32 settings), finalize, clone, drop: must be 0; inputs = every string over {00,41,7f,ff} up to the bound, six streams up to 600 bytes in piece rotations {1}, {0,1,2,3,5,8}, {64,7}, {1000}; every variant; non-trivial = all",
            &format!("{count} strings + 6 streams x 4 rotations x 12 lengths, x 5 variants"),
            true,
            |s| {
                let streams = Stream::all(ctx.seed);
                let rotations: [&[usize]; 4] = [&[1], &[1, 2, 3, 5, 8, 1], &[64, 7], &[1000]];
                let lens = [0usize, 1, 3, 4, 5, 9, 10, 49, 50, 128, 333, 600];
                let extra = (streams.len() * rotations.len() * lens.len()) as u64;
                let streams = &streams;
                s.acc = par_for((count + extra) * 5, 128, |idx, acc| {
                    let v = (idx % 5) as usize;
                    let k = idx / 5;
                    let (data, pieces): (Vec<u8>, &[usize]) = if k < count {
                        (short_string(&alpha, k), &[3, 1, 4])
                    } else {
                        let e = (k - count) as usize;
                        let ns = streams.len();
                        let st = streams[e % ns];
                        let rot = rotations[(e / ns) % 4];
                        (st.bytes(0, lens[e / (ns * 4)]), rot)
                    };
                    acc.evals += 1;
                    acc.transitions += 40;
                    acc.nontrivial += 1;
                    let (n, what) = with_variant!(v, gen_ops_allocs(&data, pieces));
                    acc.outcomes.insert(n);
                    if n != 0 {
                        acc.fail(idx, "generator-ops", format!("{}: {what} made {n} allocator call(s) on a {}-byte input", VARIANT_NAMES[v], data.len()), json!({"kind": "gen-alloc", "key": format!("alloc-{what}"), "variant": VARIANT_NAMES[v], "data": hex(&data)}));
                    } else if idx % 4001 == 0 {
                        acc.sample(idx, || json!({"variant": VARIANT_NAMES[v], "input_len": data.len(), "pieces": pieces, "allocator_calls": 0}));
                    }
                });
            },
        );
    }
    if ctx.want("large-updates") {
        r.section(
            "large-updates",
            "allocator calls while armed around single large update calls (64 KiB-1, 64 KiB, 64 KiB+1, 1 MiB, 1 MiB+1, 5 MiB+3, 17 MiB) and the following finalize / clone, every variant: must be 0 (a temporary buffer for big inputs would show here); non-trivial = all",
            "7 sizes x 5 variants",
            true,
            |s| {
                let sizes = [65535usize, 65536, 65537, 1 << 20, (1 << 20) + 1, (5 << 20) + 3, 17 << 20];
                let big = Stream::Mixed.bytes(0, 17 << 20);
                let big = &big;
                s.acc = par_for(35, 1, |idx, acc| {
                    let sz = sizes[(idx / 5) as usize];
                    fn go<V: Variant>(data: &[u8]) -> (u64, &'static str) {
                        gen_ops_allocs::<V>(data, &[usize::MAX])
                    }
                    acc.evals += 1;
                    acc.transitions += 40;
                    acc.nontrivial += 1;
                    let (n, what) = with_variant!(idx % 5, go(&big[..sz]));
                    acc.outcomes.insert(n);
                    if n != 0 {
                        acc.fail(idx, "large-updates", format!("{}: {what} made {n} allocator call(s) on a single {sz}-byte update", VARIANT_NAMES[(idx % 5) as usize]), json!({"kind": "large-alloc", "key": format!("alloc-{what}"), "variant": VARIANT_NAMES[(idx % 5) as usize], "size": sz}));
                    } else {
                        acc.sample(idx, || json!({"variant": VARIANT_NAMES[(idx % 5) as usize], "single_update_bytes": sz, "allocator_calls": 0}));
                    }
                });
            },
        );
    }
    if ctx.want("hash-ops") {
        fn per<V: Variant>(r: &mut Report) {
            let name = format!("hash-ops-{}", V::NAME);
            r.section(
                &name,
                "allocator calls counted while armed around TryFrom (array, slice, rejecting), store_into_bytes / store_into_str_bytes (fitting and too small), from_str_bytes in 3 modes (accepting, wrong length, bad character in each field), FromStr, compare / compare_with_config (both modes), max_distance, all accessors, clear_checksum, compare_with on strings: must be 0; values = every byte position x 256 values x 4 backgrounds; non-trivial = all",
                &format!("{} values", value_count::<V>()),
                true,
                |s| {
                    let n1 = value_count::<V>();
                    s.acc = par_for(n1, 512, |idx, acc| {
                        let b = value_by_index::<V>(idx);
                        let o = value_by_index::<V>((idx * 7 + 13) % n1);
                        if !constructible::<V>(&b) {
                            return;
                        }
                        acc.evals += 1;
                        acc.transitions += 30;
                        acc.nontrivial += 1;
                        let (n, what) = hash_ops_allocs::<V>(&b, &o);
                        acc.outcomes.insert(n);
                        if n != 0 {
                            acc.fail(idx, "hash-ops", format!("{}: {what} made {n} allocator call(s) on value {}", V::NAME, hex(&b)), json!({"kind": "hash-alloc", "key": format!("alloc-{what}"), "variant": V::NAME, "value": hex(&b)}));
                        } else if idx % 9001 == 0 {
                            acc.sample(idx, || json!({"variant": V::NAME, "value": hex(&b), "allocator_calls": 0}));
                        }
                    });
                },
            );
        }
        per::<VShort>(r);
        per::<VNormal>(r);
        per::<VNormalLC>(r);
        per::<VLong>(r);
        per::<VLongLC>(r);
    }
    if ctx.want("first-calls") {
        r.section(
            "first-calls",
            "the same operations as the very first library calls of a fresh process (dispatch initialisation, CPU feature detection, lazily built tables): each operation kind runs armed in its own child process; allocator calls must be 0; non-trivial = all",
            "9 operation kinds x fresh process",
            true,
            |s| {
                let exe = std::env::current_exe().expect("current_exe");
                for (i, op) in ["cmp32", "cmp64", "cmp12", "fin48", "fin128", "fin256", "parse", "format", "update"].iter().enumerate() {
                    s.acc.evals += 1;
                    s.acc.transitions += 1;
                    s.acc.nontrivial += 1;
                    let out = std::process::Command::new(&exe).args(["alloc-child", op]).output();
                    match out {
                        Ok(o) if o.status.success() => {
                            let n: i64 = String::from_utf8_lossy(&o.stdout).trim().parse().unwrap_or(-1);
                            s.acc.outcomes.insert(n as u64);
                            if n != 0 {
                                s.acc.fail(i as u64, "first-calls", format!("first call of {op} in a fresh process made {n} allocator call(s)"), json!({"kind": "first-call", "key": format!("alloc-first-{op}"), "op": op}));
                                return;
                            }
                            s.acc.sample(i as u64, || json!({"op": op, "allocator_calls_in_fresh_process": n}));
                        }
                        other => {
                            s.caps.push(format!("MACHINERY: alloc-child {op} failed: {:?}", other.map(|o| String::from_utf8_lossy(&o.stderr).to_string())));
                        }
                    }
                }
            },
        );
    }
}

/// Child mode for first-calls: prints the number of allocator calls.
pub fn alloc_child(op: &str) -> u64 {
    let a35: Vec<u8> = (0..35).map(|i| (i * 3) as u8).collect();
    let b35: Vec<u8> = (0..35).map(|i| (i * 5 + 1) as u8).collect();
    let a67: Vec<u8> = (0..67).map(|i| (i * 3) as u8).collect();
    let b67: Vec<u8> = (0..67).map(|i| (i * 5 + 1) as u8).collect();
    let a15: Vec<u8> = (0..15).map(|i| (i * 3 % 40) as u8).collect();
    let b15: Vec<u8> = (0..15).map(|i| (i * 5 % 40) as u8).collect();
    let data = Stream::Mixed.bytes(0, 700);
    let opts = real_opts(&permissive(true));
    let text = b"T1DCF0DC36520C1B007FD32079B226559FD998A0200725E75AFCEAC99F5881184A4B1AA2".to_vec();
    let mut buf = [0u8; 160];
    fn fin<V: Variant>(data: &[u8], opts: &tlsh::GeneratorOptions) -> u64 {
        armed(|| {
            let mut g = V::new_gen();
            g.update(data);
            let _ = g.finalize_with_options(opts);
        })
        .1
    }
    fn cmp<V: Variant>(a: &[u8], b: &[u8]) -> u64 {
        armed(|| {
            let x = V::from_slice(a);
            let y = V::from_slice(b);
            if let (Ok(x), Ok(y)) = (x, y) {
                let _ = x.compare(&y);
            }
        })
        .1
    }
    match op {
        "cmp32" => cmp::<VNormal>(&a35, &b35),
        "cmp64" => cmp::<VLong>(&a67, &b67),
        "cmp12" => cmp::<VShort>(&a15, &b15),
        "fin48" => fin::<VShort>(&data, &opts),
        "fin128" => fin::<VNormal>(&data, &opts),
        "fin256" => fin::<VLong>(&data, &opts),
        "parse" => armed(|| {
            let _ = <<VNormal as Variant>::Hash as FuzzyHashType>::from_str_bytes(&text, None);
        })
        .1,
        "format" => armed(|| {
            if let Ok(h) = VNormal::from_slice(&a35) {
                let _ = h.store_into_str_bytes(&mut buf, HexStringPrefix::WithVersion);
                let _ = h.store_into_bytes(&mut buf);
            }
        })
        .1,
        _ => armed(|| {
            let mut g = VNormalLC::new_gen();
            g.update(&data);
            let _ = g.processed_len();
        })
        .1,
    }
}

pub fn replay(case: &Value) -> Result<(), String> {
    match case["kind"].as_str().unwrap_or("") {
        "gen-alloc" => {
            let v = case["variant"].as_str().ok_or("variant")?;
            let d = unhex(case["data"].as_str().ok_or("data")?);
            let (n, what) = with_variant!(v, gen_ops_allocs(&d, &[3, 1, 4]));
            if n == 0 { Ok(()) } else { Err(format!("{what} made {n} allocator calls")) }
        }
        "hash-alloc" => {
            let v = case["variant"].as_str().ok_or("variant")?;
            let b = unhex(case["value"].as_str().ok_or("value")?);
            fn go<V: Variant>(b: &[u8]) -> (u64, &'static str) {
                hash_ops_allocs::<V>(b, b)
            }
            let (n, what) = with_variant!(v, go(&b));
            if n == 0 { Ok(()) } else { Err(format!("{what} made {n} allocator calls")) }
        }
        "first-call" => {
            let op = case["op"].as_str().ok_or("op")?;
            let exe = std::env::current_exe().map_err(|e| e.to_string())?;
            let o = std::process::Command::new(exe).args(["alloc-child", op]).output().map_err(|e| e.to_string())?;
            let n: i64 = String::from_utf8_lossy(&o.stdout).trim().parse().unwrap_or(-1);
            if n == 0 { Ok(()) } else { Err(format!("first call of {op} made {n} allocator calls")) }
        }
        k => Err(format!("replay kind {k}: re-run the check")),
    }
}
