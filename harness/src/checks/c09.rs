//! C09 — length code is a monotone bucketing of the input length, consistent with range().

use crate::checks::common::*;
use crate::refmodel::tables::{MAX_LEN, TOPVAL};
use crate::refmodel::*;
use crate::report::*;
use crate::streams::Stream;
use crate::variant::*;
use crate::Ctx;
use serde_json::{json, Value};
use tlsh::length::FuzzyHashLengthEncoding;
use tlsh::{FuzzyHashType, GeneratorType, ParseError};

/// Judges one length. `full` also checks range()/try_from.
fn judge_len(len: u32, expect: Option<u8>, full: bool) -> Result<Option<u8>, String> {
    let got = FuzzyHashLengthEncoding::new(len);
    let code = got.map(|e| e.value());
    if code != expect {
        return Err(format!("new({len}) = {:?} but reference code = {:?}", code, expect));
    }
    if full {
        let tf = FuzzyHashLengthEncoding::try_from(len);
        match (tf, expect) {
            (Ok(e), Some(c)) if e.value() == c => {}
            (Err(ParseError::LengthIsTooLarge), None) => {}
            (other, _) => return Err(format!("try_from({len}) = {:?} but reference code = {:?}", other, expect)),
        }
        if let Some(e) = got {
            if !e.is_valid() {
                return Err(format!("new({len}) gives code {} with is_valid()==false", e.value()));
            }
            match e.range() {
                Some(r) => {
                    if !r.contains(&len) {
                        return Err(format!("range(code({len})) = {:?} does not contain {len}", r));
                    }
                }
                None => return Err(format!("range(code({len})) is None")),
            }
        }
    }
    Ok(code)
}

fn near_boundary(len: u32) -> bool {
    // within +-2 of a table boundary
    let l = len as u64;
    match TOPVAL.binary_search(&(len)) {
        Ok(_) => true,
        Err(i) => {
            (i < TOPVAL.len() && (TOPVAL[i] as u64) - l <= 2) || (i > 0 && l - (TOPVAL[i - 1] as u64) <= 2)
        }
    }
}

fn encoding_from_code(code: u8) -> Option<FuzzyHashLengthEncoding> {
    let mut b = [0u8; 35];
    b[1] = code;
    VNormal::from_slice(&b).ok().map(|h| *h.length())
}

fn judge_code(code: u8) -> Result<(), String> {
    let strict = cfg!(feature = "strict-parser");
    let enc = match encoding_from_code(code) {
        Some(e) => e,
        None => {
            if strict && code >= 170 {
                return Ok(());
            }
            return Err(format!("cannot construct a hash carrying length code {code}"));
        }
    };
    if enc.value() != code {
        return Err(format!("length().value() = {} for code byte {code}", enc.value()));
    }
    let expect = ref_length_range(code);
    let got = enc.range().map(|r| (*r.start() as u64, *r.end() as u64));
    if got != expect {
        return Err(format!("range({code}) = {:?} but reference = {:?}", got, expect));
    }
    if enc.is_valid() != (code < 170) {
        return Err(format!("is_valid({code}) = {}", enc.is_valid()));
    }
    if enc.range().is_some() != enc.is_valid() {
        return Err(format!("range({code}).is_some() != is_valid()"));
    }
    Ok(())
}

/// A generated hash from `n` bytes of `stream` carries code(n) (all permissive flags on).
fn judge_generated<V: Variant>(stream: Stream, n: u32) -> Result<(), String> {
    let data = stream.bytes(0, n as usize);
    let g = fresh_fed::<V>(&data);
    for pure_int in [false, true] {
        let o = permissive(pure_int);
        match g.finalize_with_options(&real_opts(&o)) {
            Ok(h) => {
                let c = h.length().value();
                if Some(c) != ref_length_code(n as u64) {
                    return Err(format!("hash of {n} bytes carries length code {c}, reference {:?}", ref_length_code(n as u64)));
                }
            }
            Err(e) => return Err(format!("finalize of {n} bytes with all permissive flags failed: {e:?}")),
        }
    }
    Ok(())
}

#[cfg(fast_tlsh_verif)]
fn injected_gen<V: Variant>(n: u32) -> V::Gen {
    let mut p = tlsh::verif::GeneratorParts { buckets: [0; 256], len: 0, checksum: [0; 3], tail: [1, 2, 3, 4], tail_len: 0 };
    for i in 0..256 {
        p.buckets[i] = (i as u32 % 7) + 1;
    }
    if n >= 4 {
        p.len = n - 4;
        p.tail_len = 4;
    } else {
        p.tail_len = n;
    }
    V::gen_from_parts(&p)
}

#[cfg(fast_tlsh_verif)]
fn judge_injected<V: Variant>(n: u32) -> Result<(), String> {
    let g = injected_gen::<V>(n);
    if g.processed_len() != Some(n) {
        return Err(format!("injected generator reports processed_len {:?} for n={n}", g.processed_len()));
    }
    let o = permissive(true);
    match g.finalize_with_options(&real_opts(&o)) {
        Ok(h) => {
            let c = h.length().value();
            if Some(c) != ref_length_code(n as u64) {
                return Err(format!("hash of {n} bytes (injected) carries length code {c}, reference {:?}", ref_length_code(n as u64)));
            }
            Ok(())
        }
        Err(e) => {
            if n as u64 > MAX_LEN && matches!(e, tlsh::GeneratorError::TooLargeInput) {
                Ok(())
            } else {
                Err(format!("finalize of {n} bytes (injected, permissive) failed: {e:?}"))
            }
        }
    }
}

pub fn run(r: &mut Report, ctx: &Ctx) {
    quiet_panics();
    let quick = ctx.quick();
    if ctx.want("all-lengths") {
        r.section(
            "all-lengths",
            "every u32 length (distinct by enumeration); new(len) judged against a merge scan of the pinned 170-entry table, monotonicity judged against the previous length; non-trivial = lengths within +-2 of a table boundary or of MAX (range()/try_from/is_valid judged there, and on every 16th length; thorough: on every length)",
            "len in 0..2^32 (complete domain)",
            true,
            |s| {
                const BLOCK: u64 = 1 << 18;
                let blocks = (1u64 << 32) / BLOCK;
                let full_all = !quick;
                s.acc = par_for(blocks, 1, |b, acc| {
                    let start = b * BLOCK;
                    let end = start + BLOCK;
                    // cursor = reference code of `start` by linear scan
                    let mut cur: usize = match ref_length_code(start) {
                        Some(c) => c as usize,
                        None => TOPVAL.len(),
                    };
                    let mut prev_real: Option<Option<u8>> = if start == 0 {
                        None
                    } else {
                        Some(FuzzyHashLengthEncoding::new((start - 1) as u32).map(|e| e.value()))
                    };
                    for l in start..end {
                        let len = l as u32;
                        while cur < TOPVAL.len() && l > TOPVAL[cur] as u64 {
                            cur += 1;
                        }
                        let expect = if cur < TOPVAL.len() { Some(cur as u8) } else { None };
                        // within +-2 of a table boundary (cursor arithmetic; same set as near_boundary())
                        let nb = (cur < TOPVAL.len() && TOPVAL[cur] as u64 - l <= 2)
                            || (cur > 0 && l - TOPVAL[cur - 1] as u64 <= 2);
                        let full = full_all || nb || len % 16 == 0;
                        acc.evals += 1;
                        acc.transitions += if full { 3 } else { 1 };
                        match judge_len(len, expect, full) {
                            Ok(code) => {
                                // monotone: code never decreases (None = beyond MAX sorts last)
                                if let Some(p) = prev_real {
                                    let ord = |c: Option<u8>| c.map(|x| x as u32).unwrap_or(1000);
                                    if ord(code) < ord(p) {
                                        acc.fail(l, "all-lengths", format!("code({len}) = {:?} < code({}) = {:?}", code, len - 1, p), json!({"kind": "len", "len": len}));
                                        return;
                                    }
                                }
                                prev_real = Some(code);
                                if nb {
                                    acc.nontrivial += 1;
                                    acc.outcomes.insert(code.map(|c| c as u64).unwrap_or(999));
                                    acc.sample(l, || json!({"len": len, "code": code}));
                                }
                            }
                            Err(e) => {
                                acc.fail(l, "all-lengths", e, json!({"kind": "len", "len": len}));
                                return;
                            }
                        }
                    }
                });
                s.states = 1u64 << 32;
            },
        );
    }
    if ctx.want("all-codes") {
        r.section(
            "all-codes",
            "every code byte 0..=255 carried by a parsed hash: range()/is_valid() vs reference ranges; tiling of 0..=MAX by codes 0..170; non-trivial = all (each code is a distinct case)",
            "code in 0..256 (complete domain)",
            true,
            |s| {
                for code in 0..=255u8 {
                    s.acc.evals += 1;
                    s.acc.transitions += 3;
                    s.acc.nontrivial += 1;
                    match judge_code(code) {
                        Ok(()) => {
                            s.acc.outcomes.insert(ref_length_range(code).map(|(a, b)| a ^ (b << 32)).unwrap_or(u64::MAX));
                            s.acc.sample(code as u64, || json!({"code": code, "range": ref_length_range(code)}));
                        }
                        Err(e) => {
                            s.acc.fail(code as u64, "all-codes", e, json!({"kind": "code", "code": code}));
                            return;
                        }
                    }
                }
                // tiling judged on the real ranges
                let mut next: u64 = 0;
                for code in 0..170u8 {
                    if let Some(enc) = encoding_from_code(code) {
                        match enc.range() {
                            Some(rg) => {
                                if *rg.start() as u64 != next || rg.end() < rg.start() {
                                    s.acc.fail(1000 + code as u64, "all-codes", format!("range({code}) = {:?} does not start at {next}", rg), json!({"kind": "code", "code": code}));
                                    return;
                                }
                                next = *rg.end() as u64 + 1;
                            }
                            None => {
                                s.acc.fail(1000 + code as u64, "all-codes", format!("range({code}) is None"), json!({"kind": "code", "code": code}));
                                return;
                            }
                        }
                    }
                }
                if next != MAX_LEN + 1 {
                    s.acc.fail(2000, "all-codes", format!("ranges of codes 0..170 end at {} not MAX", next - 1), json!({"kind": "code", "code": 169}));
                }
            },
        );
    }
    if ctx.want("generated") {
        let top: u32 = if quick { 1200 } else { 8192 };
        r.section(
            "generated-real",
            "hash generated (all permissive flags, both Q-ratio modes) from S0[..n] for every n, every variant; carries code(n); distinct by (variant,n); non-trivial = all",
            &format!("n in 0..={top} x 5 variants, really fed"),
            true,
            |s| {
                let total = (top as u64 + 1) * 5;
                s.acc = par_for(total, 16, |idx, acc| {
                    let n = (idx / 5) as u32;
                    let v = (idx % 5) as usize;
                    acc.evals += 1;
                    acc.transitions += 3;
                    acc.nontrivial += 1;
                    let res = match v {
                        0 => judge_generated::<VShort>(Stream::Mixed, n),
                        1 => judge_generated::<VNormal>(Stream::Mixed, n),
                        2 => judge_generated::<VNormalLC>(Stream::Mixed, n),
                        3 => judge_generated::<VLong>(Stream::Mixed, n),
                        _ => judge_generated::<VLongLC>(Stream::Mixed, n),
                    };
                    match res {
                        Ok(()) => {
                            acc.outcomes.insert(ref_length_code(n as u64).unwrap() as u64);
                            acc.sample(idx, || json!({"variant": VARIANT_NAMES[v], "n": n, "code": ref_length_code(n as u64)}));
                        }
                        Err(e) => acc.fail(idx, "generated-real", e, json!({"kind": "generated", "variant": VARIANT_NAMES[v], "n": n})),
                    }
                });
            },
        );
        #[cfg(fast_tlsh_verif)]
        {
            r.section(
                "generated-injected-boundaries",
                "generator injected at n bytes (hook), finalize (permissive) carries code(n); n within +-8 of every table boundary, of 2^k, and of MAX; distinct by (variant,n); non-trivial = all",
                "170 boundaries + 32 powers of two, +-8, x 5 variants",
                true,
                |s| {
                    let mut ns: Vec<u32> = Vec::new();
                    for &t in TOPVAL.iter() {
                        for d in -8i64..=8 {
                            let v = t as i64 + d;
                            if (0..=u32::MAX as i64).contains(&v) {
                                ns.push(v as u32);
                            }
                        }
                    }
                    for k in 0..32 {
                        for d in -8i64..=8 {
                            let v = (1i64 << k) + d;
                            if (0..=u32::MAX as i64).contains(&v) {
                                ns.push(v as u32);
                            }
                        }
                    }
                    ns.sort();
                    ns.dedup();
                    let total = ns.len() as u64 * 5;
                    let ns = &ns;
                    s.acc = par_for(total, 64, |idx, acc| {
                        let n = ns[(idx / 5) as usize];
                        let v = (idx % 5) as usize;
                        acc.evals += 1;
                        acc.transitions += 2;
                        acc.nontrivial += 1;
                        let res = match v {
                            0 => judge_injected::<VShort>(n),
                            1 => judge_injected::<VNormal>(n),
                            2 => judge_injected::<VNormalLC>(n),
                            3 => judge_injected::<VLong>(n),
                            _ => judge_injected::<VLongLC>(n),
                        };
                        match res {
                            Ok(()) => {
                                acc.outcomes.insert(ref_length_code(n as u64).map(|c| c as u64).unwrap_or(999));
                                acc.sample(idx, || json!({"variant": VARIANT_NAMES[v], "n": n, "code": ref_length_code(n as u64)}));
                            }
                            Err(e) => acc.fail(idx, "generated-injected-boundaries", e, json!({"kind": "injected", "variant": VARIANT_NAMES[v], "n": n})),
                        }
                    });
                },
            );
            if !quick {
                r.section(
                    "generated-injected-all",
                    "generator injected at n bytes (hook), finalize (permissive) carries code(n), for every n (Normal variant; the length path is shared by all variants); non-trivial = n within +-2 of a table boundary",
                    "n in 0..2^32 (complete domain), Normal",
                    true,
                    |s| {
                        const BLOCK: u64 = 1 << 16;
                        s.acc = par_for((1u64 << 32) / BLOCK, 1, |b, acc| {
                            for l in b * BLOCK..(b + 1) * BLOCK {
                                acc.evals += 1;
                                acc.transitions += 2;
                                if near_boundary(l as u32) {
                                    acc.nontrivial += 1;
                                }
                                if let Err(e) = judge_injected::<VNormal>(l as u32) {
                                    acc.fail(l, "generated-injected-all", e, json!({"kind": "injected", "variant": "Normal", "n": l}));
                                    return;
                                }
                            }
                            acc.outcomes.insert(ref_length_code(b * BLOCK).map(|c| c as u64).unwrap_or(999));
                            acc.sample(b, || json!({"variant": "Normal", "n_block_start": b * BLOCK}));
                        });
                        s.states = 1u64 << 32;
                    },
                );
            }
            // liveness of the monitor: count evaluations on a small single-threaded run
            tlsh::verif::invariant_count_evaluations(true);
            for len in [1u32, 2, 1000, 65536, u32::MAX] {
                let _ = FuzzyHashLengthEncoding::new(len);
            }
            tlsh::verif::invariant_count_evaluations(false);
            let (ev, fails) = tlsh::verif::invariant_counts();
            r.notes.push(format!("invariant monitor: live ({ev} evaluations counted on a 5-length probe), {fails} false over the whole run"));
            if fails > 0 {
                let mut buf = [0u8; 192];
                let n = tlsh::verif::invariant_first_failure(&mut buf);
                r.notes.push(format!("first false invariant: {}", String::from_utf8_lossy(&buf[..n])));
            }
        }
    }
}

pub fn replay(case: &Value) -> Result<(), String> {
    match case["kind"].as_str().unwrap_or("") {
        "len" => {
            let len = case["len"].as_u64().ok_or("len")? as u32;
            let expect = ref_length_code(len as u64);
            println!("len={len} reference code={expect:?} real={:?}", FuzzyHashLengthEncoding::new(len).map(|e| e.value()));
            let code = judge_len(len, expect, true)?;
            if len > 0 {
                let p = FuzzyHashLengthEncoding::new(len - 1).map(|e| e.value());
                let ord = |c: Option<u8>| c.map(|x| x as u32).unwrap_or(1000);
                if ord(code) < ord(p) {
                    return Err(format!("code({len}) = {code:?} < code({}) = {p:?}", len - 1));
                }
            }
            Ok(())
        }
        "code" => judge_code(case["code"].as_u64().ok_or("code")? as u8),
        "generated" => {
            let n = case["n"].as_u64().ok_or("n")? as u32;
            match case["variant"].as_str().unwrap_or("") {
                "Short" => judge_generated::<VShort>(Stream::Mixed, n),
                "Normal" => judge_generated::<VNormal>(Stream::Mixed, n),
                "NormalWithLongChecksum" => judge_generated::<VNormalLC>(Stream::Mixed, n),
                "Long" => judge_generated::<VLong>(Stream::Mixed, n),
                _ => judge_generated::<VLongLC>(Stream::Mixed, n),
            }
        }
        #[cfg(fast_tlsh_verif)]
        "injected" => {
            let n = case["n"].as_u64().ok_or("n")? as u32;
            match case["variant"].as_str().unwrap_or("") {
                "Short" => judge_injected::<VShort>(n),
                "Normal" => judge_injected::<VNormal>(n),
                "NormalWithLongChecksum" => judge_injected::<VNormalLC>(n),
                "Long" => judge_injected::<VLong>(n),
                _ => judge_injected::<VLongLC>(n),
            }
        }
        k => Err(format!("unknown replay kind {k}")),
    }
}
