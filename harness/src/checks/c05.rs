//! C05 — hex parser accepts exactly the well-formed strings and never panics.
//! (In strict-parser builds the same enumeration is judged with the strict rules: C15.)

use crate::checks::codec::*;
use crate::checks::common::*;
use crate::report::*;
use crate::variant::*;
use crate::{with_variant, Ctx};
use serde_json::{json, Value};

pub fn enumerate<V: Variant>(r: &mut Report, ctx: &Ctx, prop: &str) {
    let quick = ctx.quick();
    let bases = base_strings::<V>();
    let bases = &bases;
    let base = |b: usize| -> Vec<u8> {
        let mut st = bases[b % 3].clone();
        if b >= 3 {
            st.drain(..2);
        }
        st
    };
    let name = format!("dev1-{}", V::NAME);
    if ctx.want(&name) {
        r.section(
            &name,
            "one deviation: 6 well-formed base strings (all-digit, all-upper, mixed case; with and without T1) with any one position replaced by any of the 256 byte values (incl. non-UTF-8), every prefix mode and every parse entry point, under catch_unwind; reference parser gives the value or the set of applicable errors; distinct by enumeration; non-trivial = strings that are not accepted in auto mode",
            &format!("6 bases x {} positions x 256 values x 3 modes", V::STRLEN),
            true,
            |s| {
                s.acc = par_for(6 * V::STRLEN as u64 * 256, 512, |idx, acc| {
                    let x = (idx % 256) as u8;
                    let pos = ((idx / 256) % V::STRLEN as u64) as usize;
                    let b = (idx / 256 / V::STRLEN as u64) as usize;
                    let mut st = base(b);
                    if pos >= st.len() {
                        return;
                    }
                    st[pos] = x;
                    acc.evals += 1;
                    acc.transitions += 7;
                    match judge_parse::<V>(&st) {
                        Ok(fp) => {
                            acc.outcomes.insert(fp);
                            if !(x.is_ascii_hexdigit()) {
                                acc.nontrivial += 1;
                                if idx % 997 == 0 {
                                    acc.sample(idx, || json!({"variant": V::NAME, "string_hex": hex(&st), "position": pos, "byte": x}));
                                }
                            }
                        }
                        Err(e) => acc.fail(idx, &name, e, json!({"kind": "parse", "variant": V::NAME, "string": hex(&st), "property": prop})),
                    }
                });
            },
        );
    }
    let name = format!("dev2-{}", V::NAME);
    if ctx.want(&name) {
        let second_full = !quick;
        r.section(
            &name,
            "two deviations: first at any position from a 7-class alphabet {'0','A','f','G','@',0x80,0xff} (thorough: all 256 values), second at any later position from the 7-class alphabet; every prefix mode and entry point; non-trivial = strings with at least one non-hex byte",
            &format!("6 bases x C({},2) position pairs x {} x 7", V::STRLEN, if second_full { 256 } else { 7 }),
            true,
            |s| {
                let n = V::STRLEN as u64;
                let k1: u64 = if second_full { 256 } else { 7 };
                s.acc = par_for(6 * n * k1, 4, |idx, acc| {
                    let c1 = idx % k1;
                    let p1 = ((idx / k1) % n) as usize;
                    let b = (idx / k1 / n) as usize;
                    let mut st = base(b);
                    if p1 >= st.len() {
                        return;
                    }
                    st[p1] = if second_full { c1 as u8 } else { CLASS7[c1 as usize] };
                    for p2 in p1 + 1..st.len() {
                        let keep = st[p2];
                        for &c2 in CLASS7.iter() {
                            st[p2] = c2;
                            acc.evals += 1;
                            acc.transitions += 7;
                            match judge_parse::<V>(&st) {
                                Ok(fp) => {
                                    acc.outcomes.insert(fp);
                                    if !c2.is_ascii_hexdigit() || !st[p1].is_ascii_hexdigit() {
                                        acc.nontrivial += 1;
                                    }
                                }
                                Err(e) => {
                                    acc.fail(idx * 100000 + p2 as u64 * 8, &name, e, json!({"kind": "parse", "variant": V::NAME, "string": hex(&st), "property": prop}));
                                    return;
                                }
                            }
                        }
                        st[p2] = keep;
                    }
                    if p1 == 3 {
                        acc.sample(idx, || json!({"variant": V::NAME, "first_deviation": [p1, st[p1]], "second": "every later position x 7 classes"}));
                    }
                });
            },
        );
    }
    let name = format!("header-product-{}", V::NAME);
    if ctx.want(&name) {
        // any number of cooperating characters in the prefix + header region
        let hdr = 2 + V::CK * 2 + 4;
        let classes: &[u8] = if V::CK == 1 { &[b'0', b'1', b'T', b'f', b'G', 0x80] } else if quick { &[b'1', b'T', b'G'] } else { &[b'1', b'T', b'G', 0xc3] };
        let k = classes.len() as u64;
        let total = k.pow(hdr as u32);
        r.section(
            &name,
            "every combination of a class alphabet in ALL prefix + header character positions at once (T1, checksum, length and Q-ratio characters) with a well-formed body, with and without the last body character damaged: any number of cooperating characters; every prefix mode and entry point; non-trivial = strings that are not accepted",
            &format!("{}^{hdr} = {total} header fillings x 2 bodies", classes.len()),
            true,
            |s| {
                s.acc = par_for(total, 1024, |idx, acc| {
                    let mut st = base(2);
                    let mut x = idx;
                    for pos in 0..hdr {
                        st[pos] = classes[(x % k) as usize];
                        x /= k;
                    }
                    for damage in [false, true] {
                        if damage {
                            let l = st.len();
                            st[l - 1] = b'x';
                        }
                        acc.evals += 1;
                        acc.transitions += 7;
                        match judge_parse::<V>(&st) {
                            Ok(fp) => {
                                acc.outcomes.insert(fp);
                                if damage || st[..hdr].iter().any(|c| !c.is_ascii_hexdigit()) {
                                    acc.nontrivial += 1;
                                }
                            }
                            Err(e) => {
                                acc.fail(idx * 2 + damage as u64, &name, e, json!({"kind": "parse", "variant": V::NAME, "string": hex(&st), "property": prop}));
                                return;
                            }
                        }
                    }
                    if idx % 100_003 == 0 {
                        acc.sample(idx, || json!({"variant": V::NAME, "header_filling_index": idx, "string_hex": hex(&st)}));
                    }
                });
            },
        );
    }
    let name = format!("digit-pairs-{}", V::NAME);
    if ctx.want(&name) {
        let classes: Vec<u8> = b"0123456789abcdefABCDEF".iter().copied().chain([b'g', b'@', 0x80]).collect();
        r.section(
            &name,
            "every aligned character pair (one encoded byte) of every base string replaced by every pair over the 22 hex digits of both cases plus 3 invalid bytes: mixed-case pairs, digit/letter pairs and half-invalid pairs at every byte of header and body; non-trivial = pairs with an invalid member",
            &format!("6 bases x {} bytes x 25^2 pairs", V::STRLEN / 2),
            true,
            |s| {
                let classes = &classes;
                let nbytes = (V::STRLEN / 2) as u64;
                s.acc = par_for(6 * nbytes * 25, 64, |idx, acc| {
                    let c0 = classes[(idx % 25) as usize];
                    let byte = ((idx / 25) % nbytes) as usize;
                    let b = (idx / 25 / nbytes) as usize;
                    let mut st = base(b);
                    // pairs are aligned to the digits (after the optional prefix)
                    let off = if st.len() == V::STRLEN { 2 } else { 0 };
                    let pos = off + byte * 2;
                    if pos + 1 >= st.len() {
                        return;
                    }
                    st[pos] = c0;
                    for &c1 in classes.iter() {
                        st[pos + 1] = c1;
                        acc.evals += 1;
                        acc.transitions += 7;
                        if !c0.is_ascii_hexdigit() || !c1.is_ascii_hexdigit() {
                            acc.nontrivial += 1;
                        }
                        match judge_parse::<V>(&st) {
                            Ok(fp) => acc.outcomes.insert(fp),
                            Err(e) => {
                                acc.fail(idx * 25 + c1 as u64, &name, e, json!({"kind": "parse", "variant": V::NAME, "string": hex(&st), "property": prop}));
                                return;
                            }
                        }
                    }
                    if idx % 4001 == 0 {
                        acc.sample(idx, || json!({"variant": V::NAME, "base": b, "byte": byte, "first_char": c0 as char, "second_char": "all 25 classes"}));
                    }
                });
            },
        );
    }
    let name = format!("utf8-{}", V::NAME);
    if ctx.want(&name) {
        r.section(
            &name,
            "valid-UTF-8 non-ASCII strings (so that the &str entry points from_str / str::parse / from_str_with are exercised on them): in each of the 6 base strings, r bytes (r in 0..=4) at every position are replaced by one of {U+00E9 (2 bytes), U+20AC (3 bytes), U+1D11E (4 bytes)}, giving right and wrong byte lengths; every entry point must agree with from_str_bytes and a wrong length must be a length error; non-trivial = all",
            &format!("6 bases x {} positions x 3 characters x 5 replaced widths", V::STRLEN),
            true,
            |s| {
                let chars: [&str; 3] = ["\u{e9}", "\u{20ac}", "\u{1d11e}"];
                s.acc = par_for(6 * V::STRLEN as u64 * 15, 64, |idx, acc| {
                    let rwidth = (idx % 5) as usize;
                    let c = chars[((idx / 5) % 3) as usize];
                    let pos = ((idx / 15) % V::STRLEN as u64) as usize;
                    let b = (idx / 15 / V::STRLEN as u64) as usize;
                    let st = base(b);
                    if pos + rwidth > st.len() {
                        return;
                    }
                    let mut out = st[..pos].to_vec();
                    out.extend_from_slice(c.as_bytes());
                    out.extend_from_slice(&st[pos + rwidth..]);
                    acc.evals += 1;
                    acc.transitions += 7;
                    acc.nontrivial += 1;
                    match judge_parse::<V>(&out) {
                        Ok(fp) => {
                            acc.outcomes.insert(fp);
                            if idx % 997 == 0 {
                                acc.sample(idx, || json!({"variant": V::NAME, "string": String::from_utf8_lossy(&out), "byte_len": out.len()}));
                            }
                        }
                        Err(e) => acc.fail(idx, &name, e, json!({"kind": "parse", "variant": V::NAME, "string": hex(&out), "property": prop})),
                    }
                });
            },
        );
    }
    let name = format!("edits-{}", V::NAME);
    if ctx.want(&name) {
        // insertions, deletions and wrappers: what a tolerant front end (trim, quotes, 0x, line ends) would let through
        const INS: [u8; 18] = [b' ', b'\n', b'\r', b'\t', 0, b'0', b'F', b'a', b'T', b'1', b':', b'-', b'+', b'_', b'"', b'g', 0x80, 0xff];
        let wrappers: [(&[u8], &[u8]); 12] = [
            (b" ", b""), (b"", b" "), (b" ", b" "), (b"", b"\n"), (b"", b"\r\n"), (b"\"", b"\""), (b"0x", b""), (b"T1", b""), (b"", b"\0"),
            (b"\xef\xbb\xbf", b""), (b"tlsh:", b""), (b"T1T1", b""),
        ];
        let npos = V::STRLEN as u64 + 1;
        let total = 6 * (npos * INS.len() as u64 + npos + wrappers.len() as u64);
        r.section(
            &name,
            "edits of the 6 well-formed base strings: one byte from an 18-byte class alphabet inserted at every position (both ends included), one byte deleted at every position, and 12 wrappers (leading / trailing blanks and line ends, quotes, 0x, a second T1, NUL, byte-order mark, a scheme prefix): every mode and entry point vs the reference parser (only a result that is again well-formed may be accepted); non-trivial = all",
            &format!("6 bases x ({} positions x 18 insertions + {} deletions + 12 wrappers)", npos, npos),
            true,
            |s| {
                s.acc = par_for(total, 256, |idx, acc| {
                    let per_base = total / 6;
                    let b = (idx / per_base) as usize;
                    let k = idx % per_base;
                    let st = base(b);
                    let out: Vec<u8> = if k < npos * INS.len() as u64 {
                        let (pos, c) = ((k / INS.len() as u64) as usize, INS[(k % INS.len() as u64) as usize]);
                        if pos > st.len() {
                            return;
                        }
                        let mut o = st[..pos].to_vec();
                        o.push(c);
                        o.extend_from_slice(&st[pos..]);
                        o
                    } else if k < npos * INS.len() as u64 + npos {
                        let pos = (k - npos * INS.len() as u64) as usize;
                        if pos >= st.len() {
                            return;
                        }
                        let mut o = st.clone();
                        o.remove(pos);
                        o
                    } else {
                        let (pre, post) = wrappers[(k - npos * INS.len() as u64 - npos) as usize];
                        [pre, &st[..], post].concat()
                    };
                    acc.evals += 1;
                    acc.transitions += 7;
                    acc.nontrivial += 1;
                    match judge_parse::<V>(&out) {
                        Ok(fp) => {
                            acc.outcomes.insert(fp);
                            if idx % 499 == 0 {
                                acc.sample(idx, || json!({"variant": V::NAME, "string_hex": hex(&out), "byte_len": out.len()}));
                            }
                        }
                        Err(e) => acc.fail(idx, &name, e, json!({"kind": "parse", "variant": V::NAME, "string": hex(&out), "property": prop})),
                    }
                });
            },
        );
    }
    let name = format!("lengths-{}", V::NAME);
    if ctx.want(&name) {
        r.section(
            &name,
            "every length 0..=2*LEN with digit-only and with junk content, with/without \"T1\", and the prefixes T0 T2 t1 1T T\\0; every mode and entry point; non-trivial = lengths other than the two valid ones",
            &format!("{} lengths x 2 contents x 7 prefixes", 2 * V::STRLEN + 1),
            true,
            |s| {
                let prefixes: [&[u8]; 7] = [b"", b"T1", b"T0", b"T2", b"t1", b"1T", b"T\0"];
                let mut key = 0u64;
                for len in 0..=2 * V::STRLEN {
                    for junk in [false, true] {
                        for p in prefixes.iter() {
                            key += 1;
                            if p.len() > len {
                                continue;
                            }
                            let mut st = p.to_vec();
                            for i in p.len()..len {
                                st.push(if junk && i % 5 == 4 { b"g~ \x00\xc3"[i % 5] } else { b"0123456789abcdefABCDEF"[(i * 3) % 22] });
                            }
                            if STRICT && st.len() >= 2 + V::CK * 2 + 2 {
                                // keep header strict-valid when the rest is well-formed
                                let off = if p.len() == 2 { 2 } else { 0 };
                                for i in 0..V::CK * 2 + 2 {
                                    st[off + i] = if i % 2 == 0 { b'1' } else { b'0' };
                                }
                            }
                            s.acc.evals += 1;
                            s.acc.transitions += 7;
                            if len != V::STRLEN && len != V::STRLEN - 2 {
                                s.acc.nontrivial += 1;
                            }
                            match judge_parse::<V>(&st) {
                                Ok(fp) => {
                                    s.acc.outcomes.insert(fp);
                                    if len == V::STRLEN && junk {
                                        s.acc.sample(key, || json!({"variant": V::NAME, "string_hex": hex(&st)}));
                                    }
                                }
                                Err(e) => {
                                    s.acc.fail(key, &name, e, json!({"kind": "parse", "variant": V::NAME, "string": hex(&st), "property": prop}));
                                    return;
                                }
                            }
                        }
                    }
                }
            },
        );
    }
}

pub fn run(r: &mut Report, ctx: &Ctx) {
    quiet_panics();
    if STRICT {
        r.notes.push("strict-parser build: judged with the strict acceptance rules (C15)".into());
    }
    enumerate::<VShort>(r, ctx, "C05");
    enumerate::<VNormal>(r, ctx, "C05");
    enumerate::<VNormalLC>(r, ctx, "C05");
    enumerate::<VLong>(r, ctx, "C05");
    enumerate::<VLongLC>(r, ctx, "C05");
    crate::seq::section(r, ctx, "codec");
}

fn rp<V: Variant>(b: &[u8]) -> Result<(), String> {
    judge_parse::<V>(b).map(|_| ())
}

pub fn replay(case: &Value) -> Result<(), String> {
    let v = case["variant"].as_str().ok_or("variant")?;
    let b = unhex(case["string"].as_str().ok_or("string")?);
    println!("string = {:?}", String::from_utf8_lossy(&b));
    with_variant!(v, rp(&b))
}
