use crate::report::Report;
use crate::Ctx;
pub fn run(_r: &mut Report, _ctx: &Ctx) {}
pub fn replay(_case: &serde_json::Value) -> Result<(), String> { Ok(()) }
