//! C01 — generated hashes equal the TLSH reference algorithm for every input.

use crate::checks::common::*;
use crate::refmodel::*;
use crate::report::*;
use crate::streams::Stream;
use crate::variant::*;
use crate::{with_variant, Ctx};
use serde_json::{json, Value};
use tlsh::GeneratorType;

// ---------------------------------------------------------------------------
// judges

/// Whole input through the public API, all 32 option settings.
pub fn judge_input<V: Variant>(data: &[u8]) -> Result<[Outcome; 32], String> {
    let g = catch(|| fresh_fed::<V>(data)).map_err(|p| format!("update panicked: {p}"))?;
    let r = ref_fed::<V>(data);
    if r.n <= u32::MAX as u64 && g.processed_len() != Some(r.n as u32) {
        return Err(format!("processed_len() = {:?} after {} bytes", g.processed_len(), r.n));
    }
    compare_all_opts::<V>(&g, &r)
}

fn judge_input_dyn(variant: usize, data: &[u8]) -> Result<[Outcome; 32], String> {
    with_variant!(variant, judge_input(data))
}

/// Feeds S[..top] byte by byte and judges at every n.
fn judge_prefixes<V: Variant>(stream: Stream, from: u64, to: u64, acc: &mut Acc, key_base: u64, section: &str) {
    let mut g = V::new_gen();
    let mut r = V::ref_gen();
    // bring both to `from` (chunked update for the real one; chunking is C03's subject)
    let mut off = 0u64;
    let mut buf = vec![0u8; 1 << 16];
    while off < from {
        let k = ((from - off) as usize).min(buf.len());
        stream.fill(off, &mut buf[..k]);
        g.update(&buf[..k]);
        r.feed_all(&buf[..k]);
        off += k as u64;
    }
    for n in from..=to {
        acc.evals += 1;
        acc.transitions += 33;
        match compare_all_opts::<V>(&g, &r) {
            Ok(outs) => {
                if any_ok(&outs) {
                    acc.nontrivial += 1;
                }
                acc.outcomes.insert(outcomes_fp(&outs));
                if n == to {
                    acc.sample(key_base + n, || json!({"variant": V::NAME, "stream": stream.name(), "n": n, "default_outcome": outcome_str(&outs[0])}));
                }
            }
            Err(e) => {
                acc.fail(key_base + n, section, format!("{} {} n={n}: {e}", V::NAME, stream.name()),
                         json!({"kind": "prefix", "variant": V::NAME, "stream": stream.name(), "n": n}));
                return;
            }
        }
        if n < to {
            let b = stream.byte(n);
            g.update(&[b]);
            r.feed(b);
        }
    }
}

fn judge_prefix_one<V: Variant>(stream: Stream, n: u64) -> Result<(), String> {
    let data = stream.bytes(0, n as usize);
    judge_input::<V>(&data).map(|_| ())
}

#[cfg(fast_tlsh_verif)]
mod hooked_judges {
    use super::*;
    use crate::checks::common::hooked::*;
    use tlsh::verif::GeneratorParts;

    /// One `update(&[b])` from an injected state vs. the reference step.
    pub fn judge_step<V: Variant>(p: &GeneratorParts, b: u8) -> Result<(), String> {
        let mut g = V::gen_from_parts(p);
        let mut r = ref_from_parts::<V>(p);
        catch(|| g.update(&[b])).map_err(|e| format!("update panicked: {e}"))?;
        r.feed(b);
        let after = V::gen_to_parts(&g);
        parts_match_ref::<V>(&after, &r)
    }

    /// Finalization of an injected state, all 32 (or the 8 distribution-relevant) settings.
    pub fn judge_injected<V: Variant>(p: &GeneratorParts, opts: &[Opts]) -> Result<u64, String> {
        let g = V::gen_from_parts(p);
        let r = ref_from_parts::<V>(p);
        let mut fp = Vec::with_capacity(opts.len());
        for o in opts {
            let real = catch(|| real_finalize::<V>(&g, o)).map_err(|e| format!("finalize({}) panicked: {e}", o.describe()))?;
            let expect = ref_outcome(&r, o);
            if real != expect {
                return Err(format!("finalize({}) = {} but reference = {}", o.describe(), outcome_str(&real), outcome_str(&expect)));
            }
            fp.push(real);
        }
        Ok(outcomes_fp(&fp))
    }
}
#[cfg(fast_tlsh_verif)]
use hooked_judges::*;

// ---------------------------------------------------------------------------
// enumerators

/// idx -> string over `alphabet` in length-then-lexicographic order.
pub fn short_string(alphabet: &[u8], mut idx: u64) -> Vec<u8> {
    let k = alphabet.len() as u64;
    let mut len = 0usize;
    let mut count = 1u64;
    while idx >= count {
        idx -= count;
        count *= k;
        len += 1;
    }
    let mut v = vec![0u8; len];
    for i in (0..len).rev() {
        v[i] = alphabet[(idx % k) as usize];
        idx /= k;
    }
    v
}

pub fn short_string_count(k: u64, max_len: u32) -> u64 {
    (0..=max_len).map(|l| k.pow(l)).sum()
}

/// All compositions of `n` into `parts` non-negative parts, as an iterator by index is
/// awkward; enumerate recursively into a Vec (sizes here are <= ~3M).
pub fn compositions(n: usize, parts: usize) -> Vec<Vec<u16>> {
    fn rec(n: usize, parts: usize, cur: &mut Vec<u16>, out: &mut Vec<Vec<u16>>) {
        if parts == 1 {
            cur.push(n as u16);
            out.push(cur.clone());
            cur.pop();
            return;
        }
        for i in 0..=n {
            cur.push(i as u16);
            rec(n - i, parts - 1, cur, out);
            cur.pop();
        }
    }
    let mut out = Vec::new();
    rec(n, parts, &mut Vec::new(), &mut out);
    out
}

pub const VALUE_ALPHABETS: [[u32; 4]; 6] = [
    [0, 1, 2, 3],
    [0, (1 << 24) - 1, 1 << 24, (1 << 24) + 1],
    [1, 42949672, 42949673, 1 << 31],
    [(1u32 << 31) - 1, 1 << 31, u32::MAX - 1, u32::MAX],
    [0, 7, 100, 1600],
    [3, (1 << 25) + 3, (1 << 30) + 1, u32::MAX],
];

/// Places `counts[c]` buckets of value `values[c]` into `nb` effective buckets.
/// placement 0 = ascending, 1 = descending, 2 = bit-reversed index order.
pub fn place_buckets(nb: usize, counts: &[u16], values: &[u32], placement: usize) -> [u32; 256] {
    let mut seq = Vec::with_capacity(nb);
    for (c, &cnt) in counts.iter().enumerate() {
        for _ in 0..cnt {
            seq.push(values[c]);
        }
    }
    assert_eq!(seq.len(), nb);
    let mut b = [0u32; 256];
    match placement {
        0 => b[..nb].copy_from_slice(&seq),
        1 => {
            for i in 0..nb {
                b[nb - 1 - i] = seq[i];
            }
        }
        _ => {
            // a fixed permutation of 0..nb that scatters neighbours: multiply by an odd
            // constant coprime with nb (48, 128, 256 -> 37 works for all: gcd(37, nb) = 1)
            for i in 0..nb {
                b[(i * 37 + 11) % nb] = seq[i];
            }
        }
    }
    // physical buckets beyond nb hold an arbitrary non-zero filler (must not matter)
    for i in nb..256 {
        b[i] = 0x5a5a_5a5a;
    }
    b
}

pub fn qratio_alphabet() -> Vec<u32> {
    let mut v: Vec<u32> = vec![0, 1, 2, 3, 15, 16, 17, 99, 100, 101];
    // every power of two and its neighbours: the saturation / sign boundaries of any narrower lane type
    // (i8, u8, i16, u16, f32 mantissa, i32) a kernel might compare or multiply in
    for k in 1u32..=31 {
        v.push((1u32 << k) - 1);
        v.push(1u32 << k);
        v.push((1u32 << k) + 1);
    }
    let c = ((1u64 << 32) / 100) as u32; // 42949672
    v.extend_from_slice(&[c - 1, c, c + 1, c + 2, 2 * c, 2 * c + 1, 3 * c + 1]);
    v.extend_from_slice(&[u32::MAX, u32::MAX - 1, u32::MAX / 2, 1000, 1600, 6, 7, 160, 1599, 1601, 0x0100_0001, 0x00ff_ffff, 33554431, 50331648, 12345678, 3000000000, 4000000000, 2863311530, 1431655765]);
    v.sort();
    v.dedup();
    v
}

// ---------------------------------------------------------------------------

pub fn run(r: &mut Report, ctx: &Ctx) {
    quiet_panics();
    let quick = ctx.quick();
    let seed = ctx.seed;

    #[cfg(fast_tlsh_verif)]
    {
        for (name, is48) in [("bmap-256", false), ("bmap-48", true)] {
            if !ctx.want(name) {
                continue;
            }
            r.section(
                name,
                "every (salt,b1,b2,b3): real bucket mapping (hook entry point to the function the generator calls) vs four sequential look-ups in the pinned Pearson table (48-fold: x>=240 -> 48 else x%48); distinct by enumeration; non-trivial = all; outcomes = distinct result values",
                "2^32 (complete domain)",
                true,
                |s| {
                    s.acc = par_for(1 << 16, 16, |hi, acc| {
                        let salt = (hi >> 8) as u8;
                        let b1 = hi as u8;
                        for lo in 0..(1u32 << 16) {
                            let b2 = (lo >> 8) as u8;
                            let b3 = lo as u8;
                            let (real, expect) = if is48 {
                                (tlsh::verif::b_mapping_48(salt, b1, b2, b3), ref_bmap48(salt, b1, b2, b3))
                            } else {
                                (tlsh::verif::b_mapping_256(salt, b1, b2, b3), ref_bmap256(salt, b1, b2, b3))
                            };
                            if real != expect {
                                acc.fail((hi << 16) | lo as u64, name, format!("b_mapping{}({salt},{b1},{b2},{b3}) = {real} but reference = {expect}", if is48 { "_48" } else { "_256" }),
                                         json!({"kind": "bmap", "is48": is48, "salt": salt, "b1": b1, "b2": b2, "b3": b3}));
                                return;
                            }
                            if hi % 4099 == 0 {
                                acc.outcomes.insert(real as u64);
                            }
                        }
                        acc.evals += 1 << 16;
                        acc.transitions += 1 << 16;
                        acc.nontrivial += 1 << 16;
                        acc.sample(hi, || json!({"salt": salt, "b1": b1, "b2": 255, "b3": 255, "value": ref_bmap(if is48 { Kind::B48 } else { Kind::B256 }, salt, b1, 255, 255)}));
                    });
                },
            );
        }

        if ctx.want("step") {
            let variants: Vec<usize> = vec![0, 1, 2, 3, 4];
            let fillers: Vec<(u8, u8)> = if quick {
                vec![(0x5a, 0xff)]
            } else {
                let v = [0x00u8, 0x5a, 0xff];
                v.iter().flat_map(|&a| v.iter().map(move |&b| (a, b))).collect()
            };
            r.section(
                "step",
                "one real update(&[b4]) from an injected full-window state vs the reference step (all 256 physical buckets, checksum, length, tail compared): for each of the six salted triplets, the three bytes it reads swept exhaustively (2^24) with the other two window bytes from a filler alphabet; bucket pre-values cycle {0,1,2^24-1,2^31-1,2^32-1} (wrap), checksum pre-state cycles 4 values; distinct by enumeration; non-trivial = all",
                &format!("6 triplets x 2^24 x {} fillers x {} variants", fillers.len(), variants.len()),
                true,
                |s| {
                    use tlsh::verif::GeneratorParts;
                    // positions (in b0..b3) read by each triplet together with b4
                    const TRIP: [(usize, usize); 6] = [(3, 2), (3, 1), (2, 1), (2, 0), (3, 0), (1, 0)];
                    const PRE: [u32; 5] = [0, 1, (1 << 24) - 1, (1u32 << 31) - 1, u32::MAX];
                    const CK: [[u8; 3]; 4] = [[0, 0, 0], [0x30, 0xa5, 0x01], [0x2f, 0xff, 0x80], [0x11, 0x30, 0xff]];
                    let nf = fillers.len() as u64;
                    let nv = variants.len() as u64;
                    // work item = (variant, filler, triplet, b4, x); inner loop over y
                    let total = nv * nf * 6 * 65536;
                    let fillers = &fillers;
                    let variants = &variants;
                    s.acc = par_for(total, 64, |idx, acc| {
                        let x = (idx % 256) as u8;
                        let b4 = ((idx >> 8) % 256) as u8;
                        let rest = idx >> 16;
                        let t = (rest % 6) as usize;
                        let f = ((rest / 6) % nf) as usize;
                        let v = variants[((rest / 6 / nf) % nv) as usize];
                        let (fa, fb) = fillers[f];
                        for y in 0..=255u8 {
                            let mut tail = [0u8; 4];
                            let (px, py) = TRIP[t];
                            let mut fill = [fa, fb].into_iter();
                            for pos in 0..4 {
                                tail[pos] = if pos == px { x } else if pos == py { y } else { fill.next().unwrap() };
                            }
                            let sel = (x as usize + y as usize + b4 as usize) % 5;
                            let mut buckets = [PRE[sel]; 256];
                            buckets[(y as usize * 7 + 3) % 256] = PRE[(sel + 1) % 5];
                            let ck = CK[(x as usize ^ y as usize) % 4];
                            let p = GeneratorParts { buckets, len: 1000 + idx as u32 % 7, checksum: ck, tail, tail_len: 4 };
                            let mut p = p;
                            // checksum bytes beyond the variant's size are not state
                            let vck = [1usize, 1, 3, 1, 3][v];
                            for i in vck..3 {
                                p.checksum[i] = 0;
                            }
                            // on the 48-bucket variant a reachable checksum is <= 48; keep pre-states reachable
                            if v == 0 {
                                p.checksum[0] %= 49;
                            }
                            let res = with_variant!(v, judge_step(&p, b4));
                            if let Err(e) = res {
                                acc.fail(idx * 256 + y as u64, "step", format!("{}: step with byte {b4:#04x} from tail {:02x?}: {e}", VARIANT_NAMES[v], tail),
                                         json!({"kind": "step", "variant": VARIANT_NAMES[v], "parts": hooked::parts_json(&p), "byte": b4}));
                                return;
                            }
                        }
                        acc.evals += 256;
                        acc.transitions += 256;
                        acc.nontrivial += 256;
                        if idx % 65537 == 0 {
                            acc.outcomes.insert(idx);
                            acc.sample(idx, || json!({"variant": VARIANT_NAMES[v], "triplet": t, "b4": b4, "x": x, "y": "0..=255", "fillers": [fa, fb]}));
                        }
                    });
                },
            );
        }
    }

    if ctx.want("short-inputs") {
        let alphabets: Vec<(&str, Vec<u8>, u32)> = if quick {
            vec![("sigma4", vec![0x00, 0x41, 0x7f, 0xff], 8), ("sigma2", vec![0x00, 0xff], 14)]
        } else {
            vec![("sigma4", vec![0x00, 0x41, 0x7f, 0xff], 10), ("sigma2", vec![0x00, 0xff], 18), ("sigma3", vec![0x0e, 0xa4, 0x20], 11)]
        };
        for (aname, alpha, maxlen) in alphabets {
            let count = short_string_count(alpha.len() as u64, maxlen);
            r.section(
                &format!("short-inputs-{aname}"),
                "every string over the alphabet up to the length bound, every variant, all 32 option settings, through the public API: finalize (value or specific error) and processed_len vs reference; distinct by enumeration; non-trivial = inputs with at least one Ok outcome",
                &format!("alphabet {:02x?}, length <= {maxlen}: {count} strings x 5 variants x 32 options", alpha),
                true,
                |s| {
                    let alpha = &alpha;
                    s.acc = par_for(count * 5, 256, |idx, acc| {
                        let v = (idx % 5) as usize;
                        let data = short_string(alpha, idx / 5);
                        acc.evals += 1;
                        acc.transitions += 33;
                        match judge_input_dyn(v, &data) {
                            Ok(outs) => {
                                if any_ok(&outs) {
                                    acc.nontrivial += 1;
                                    acc.sample(idx, || json!({"variant": VARIANT_NAMES[v], "data": hex(&data), "permissive_outcome": outcome_str(&outs[permissive(true).index()])}));
                                }
                                acc.outcomes.insert(outcomes_fp(&outs));
                            }
                            Err(e) => acc.fail(idx, "short-inputs", format!("{} input {}: {e}", VARIANT_NAMES[v], hex(&data)),
                                               json!({"kind": "input", "variant": VARIANT_NAMES[v], "data": hex(&data)})),
                        }
                    });
                },
            );
        }
    }

    if ctx.want("kat-inputs") {
        r.section(
            "kat-inputs",
            "the known-answer inputs that bind the reference (Lorem ipsum, Hello World, timing vectors, smallexe, documented 44/50-byte vectors) through the real code, every variant, all 32 options; non-trivial = all",
            "14 inputs x 5 variants x 32 options",
            true,
            |s| {
                let mut inputs: Vec<(String, Vec<u8>)> = Vec::new();
                for k in kat::kats() {
                    if !inputs.iter().any(|(_, d)| *d == k.data) {
                        inputs.push((k.name.split('/').next().unwrap().to_string(), k.data));
                    }
                }
                let inputs = &inputs;
                s.acc = par_for(inputs.len() as u64 * 5, 1, |idx, acc| {
                    let v = (idx % 5) as usize;
                    let (name, data) = &inputs[(idx / 5) as usize];
                    acc.evals += 1;
                    acc.transitions += 33;
                    acc.nontrivial += 1;
                    match judge_input_dyn(v, data) {
                        Ok(outs) => {
                            acc.outcomes.insert(outcomes_fp(&outs));
                            acc.sample(idx, || json!({"variant": VARIANT_NAMES[v], "input": name, "default_outcome": outcome_str(&outs[0])}));
                        }
                        Err(e) => acc.fail(idx, "kat-inputs", format!("{} input {name}: {e}", VARIANT_NAMES[v]),
                                           json!({"kind": "input", "variant": VARIANT_NAMES[v], "data": hex(data)})),
                    }
                });
            },
        );
    }

    if ctx.want("prefix-lengths") {
        let top: u64 = if quick { 600 } else { 4096 };
        let streams = Stream::all(seed);
        r.section(
            "prefix-lengths",
            "prefixes S[..n] for every n up to the bound (fed byte by byte), six streams, every variant, all 32 options: finalize vs reference at every n; distinct by (variant,stream,n); non-trivial = states with at least one Ok outcome",
            &format!("n in 0..={top} x 6 streams x 5 variants x 32 options"),
            true,
            |s| {
                let streams = &streams;
                s.acc = par_for(5 * streams.len() as u64, 1, |idx, acc| {
                    let v = (idx % 5) as usize;
                    let st = streams[(idx / 5) as usize];
                    let key_base = idx << 40;
                    match v {
                        0 => judge_prefixes::<VShort>(st, 0, top, acc, key_base, "prefix-lengths"),
                        1 => judge_prefixes::<VNormal>(st, 0, top, acc, key_base, "prefix-lengths"),
                        2 => judge_prefixes::<VNormalLC>(st, 0, top, acc, key_base, "prefix-lengths"),
                        3 => judge_prefixes::<VLong>(st, 0, top, acc, key_base, "prefix-lengths"),
                        _ => judge_prefixes::<VLongLC>(st, 0, top, acc, key_base, "prefix-lengths"),
                    }
                });
            },
        );
        if !quick {
            // windows of +-8 around every power of two and every length-code boundary up to 2^24
            let mut marks: Vec<u64> = (13..=24).map(|k| 1u64 << k).collect();
            for &t in tables::TOPVAL.iter() {
                if (t as u64) > 4096 && (t as u64) < (1 << 24) {
                    marks.push(t as u64);
                }
            }
            marks.sort();
            marks.dedup();
            let windows: Vec<(u64, u64)> = marks.iter().map(|&m| (m - 8, m + 8)).collect();
            r.section(
                "prefix-lengths-windows",
                "as prefix-lengths, for every n within +-8 of each power of two and each length-code boundary in (4096, 2^24]; streams really fed; non-trivial = states with at least one Ok outcome",
                &format!("{} windows x 17 lengths x 6 streams x 5 variants x 32 options", windows.len()),
                true,
                |s| {
                    let streams = &streams;
                    let windows = &windows;
                    let nw = windows.len() as u64;
                    s.acc = par_for(5 * streams.len() as u64 * nw, 1, |idx, acc| {
                        let w = windows[(idx % nw) as usize];
                        let v = ((idx / nw) % 5) as usize;
                        let st = streams[(idx / nw / 5) as usize];
                        let key_base = idx << 40;
                        match v {
                            0 => judge_prefixes::<VShort>(st, w.0, w.1, acc, key_base, "prefix-lengths-windows"),
                            1 => judge_prefixes::<VNormal>(st, w.0, w.1, acc, key_base, "prefix-lengths-windows"),
                            2 => judge_prefixes::<VNormalLC>(st, w.0, w.1, acc, key_base, "prefix-lengths-windows"),
                            3 => judge_prefixes::<VLong>(st, w.0, w.1, acc, key_base, "prefix-lengths-windows"),
                            _ => judge_prefixes::<VLongLC>(st, w.0, w.1, acc, key_base, "prefix-lengths-windows"),
                        }
                    });
                },
            );
        }
    }

    #[cfg(fast_tlsh_verif)]
    {
        use tlsh::verif::GeneratorParts;
        // options that matter for the distribution logic (length is Valid here)
        let dist_opts: Vec<Opts> = Opts::all().filter(|o| !o.conservative && !o.allow_small).collect();
        if ctx.want("quartile-shapes") {
            let classes = if quick { 3 } else { 4 };
            for (v, nb) in [(0usize, 48usize), (1, 128), (2, 128), (3, 256), (4, 256)] {
                let comps = compositions(nb, classes);
                let ncomp = comps.len() as u64;
                r.section(
                    &format!("quartile-shapes-{nb}-{}", VARIANT_NAMES[v]),
                    "finalize on injected bucket arrays: every composition (n0..nk) of the effective buckets over a class alphabet x 6 value alphabets (incl. counts >= 2^24, >= 2^31, 2^32-1) x 3 placements x the 8 distribution-relevant option settings (length Valid) vs reference (full sort); distinct by enumeration; non-trivial = all; outcomes = distinct result vectors",
                    &format!("{ncomp} compositions of {nb} over {classes} classes x 6 alphabets x 3 placements x 8 options"),
                    true,
                    |s| {
                        let comps = &comps;
                        let dist_opts = &dist_opts;
                        s.acc = par_for(ncomp * 18, 64, |idx, acc| {
                            let comp = &comps[(idx / 18) as usize];
                            let a = ((idx % 18) / 3) as usize;
                            let pl = (idx % 3) as usize;
                            let buckets = place_buckets(nb, comp, &VALUE_ALPHABETS[a][..classes], pl);
                            let p = GeneratorParts { buckets, len: 996, checksum: [0x21, 0, 0], tail: [9, 8, 7, 6], tail_len: 4 };
                            acc.evals += 1;
                            acc.transitions += 8;
                            acc.nontrivial += 1;
                            let res = with_variant!(v, judge_injected(&p, dist_opts));
                            match res {
                                Ok(fp) => {
                                    acc.outcomes.insert(fp);
                                    if idx % 1009 == 0 {
                                        acc.sample(idx, || json!({"variant": VARIANT_NAMES[v], "composition": comp, "values": &VALUE_ALPHABETS[a][..classes], "placement": pl}));
                                    }
                                }
                                Err(e) => acc.fail(idx, "quartile-shapes", format!("{}: composition {:?} of values {:?} placement {pl}: {e}", VARIANT_NAMES[v], comp, &VALUE_ALPHABETS[a][..classes]),
                                                   json!({"kind": "inject", "variant": VARIANT_NAMES[v], "parts": hooked::parts_json(&p)})),
                            }
                        });
                    },
                );
            }
        }
        if ctx.want("qratio-arith") {
            let alpha = qratio_alphabet();
            let n = alpha.len();
            let mut triples = Vec::new();
            for i in 0..n {
                for j in i..n {
                    for k in j..n {
                        triples.push((alpha[i], alpha[j], alpha[k]));
                    }
                }
            }
            r.section(
                "qratio-arith",
                "all q1<=q2<=q3 from a boundary alphabet installed as the exact quartiles of an injected bucket array (nb/4 copies each, top quarter = q3 or 2^32-1), three bucket counts, both Q-ratio modes, all permissive flags on/off: finalize vs reference integer and f32 formulas; non-trivial = triples where the integer and float Q-ratio bytes differ or q3 >= 2^24",
                &format!("{} triples ({} values) x 3 bucket counts x 2 tops x 8 options", triples.len(), n),
                true,
                |s| {
                    let triples = &triples;
                    let dist_opts = &dist_opts;
                    s.acc = par_for(triples.len() as u64 * 6, 64, |idx, acc| {
                        let (q1, q2, q3) = triples[(idx / 6) as usize];
                        let (v, nb) = [(0usize, 48usize), (1, 128), (3, 256)][(idx % 3) as usize];
                        let top = if (idx % 6) / 3 == 0 { q3 } else { u32::MAX };
                        let q = nb / 4;
                        let mut buckets = [0x1234_5678u32; 256];
                        for i in 0..nb {
                            // scatter: bucket i belongs to quartile class (i*37+11)%nb / q
                            let cls = ((i * 37 + 11) % nb) / q;
                            buckets[i] = [q1, q2, q3, top][cls];
                        }
                        let p = GeneratorParts { buckets, len: 5000, checksum: [7, 0, 0], tail: [1, 1, 1, 1], tail_len: 4 };
                        acc.evals += 1;
                        acc.transitions += 8;
                        if q3 >= (1 << 24) || (q3 != 0 && (ref_qratio_int(q1, q3) != ref_qratio_f32(q1, q3) || ref_qratio_int(q2, q3) != ref_qratio_f32(q2, q3))) {
                            acc.nontrivial += 1;
                            acc.sample(idx, || json!({"variant": VARIANT_NAMES[v], "q1": q1, "q2": q2, "q3": q3, "top": top}));
                        }
                        let res = with_variant!(v, judge_injected(&p, dist_opts));
                        match res {
                            Ok(fp) => acc.outcomes.insert(fp),
                            Err(e) => acc.fail(idx, "qratio-arith", format!("{}: quartiles ({q1},{q2},{q3}) top {top}: {e}", VARIANT_NAMES[v]),
                                               json!({"kind": "inject", "variant": VARIANT_NAMES[v], "parts": hooked::parts_json(&p)})),
                        }
                    });
                },
            );
        }
        if ctx.want("qratio-boundaries") {
            // q3 values: every small value, around every power of two, and strided through the range
            let mut q3s: Vec<u32> = (1..=300).collect();
            for k in 8..32u32 {
                for j in 0..4u32 {
                    q3s.push((1u32 << k).wrapping_add(j));
                    q3s.push((1u32 << k) - 1 - j);
                }
            }
            let stride_n = if quick { 1700 } else { 17000 };
            for i in 0..stride_n as u64 {
                q3s.push((3 + i * (16_777_216 * 2 / stride_n as u64 + 1)) as u32); // up to 2^25
                q3s.push(((1u64 << 25) + i * (((1u64 << 32) - (1u64 << 25)) / stride_n as u64)) as u32);
            }
            q3s.sort();
            q3s.dedup();
            r.section(
                "qratio-boundaries",
                "Q-ratio rounding boundaries: for each q3 of a set (all 1..=300, around every power of two, strided through 1..2^32) and each m in 0..=100, q = floor(m*q3/100) + {-1,0,+1} is installed as q1 = q2 with q3 as exact quartiles (injected bucket array); these are the points where the truncated ratio changes value, so integer and f32 arithmetic diverge here first (f32 inexactness of q*100 above 2^24 and of the quotient above about 3*10^5); both Q-ratio modes, all permissive-flag settings; non-trivial = cases where the two reference formulas differ",
                &format!("{} q3 values x 101 ratios x 3 offsets x 8 options, Normal and Short alternating", q3s.len()),
                true,
                |s| {
                    let q3s = &q3s;
                    let dist_opts = &dist_opts;
                    s.acc = par_for(q3s.len() as u64 * 101, 64, |idx, acc| {
                        let q3 = q3s[(idx / 101) as usize];
                        let m = idx % 101;
                        let base = (m * q3 as u64 / 100) as i64;
                        for d in -1i64..=1 {
                            let q = (base + d).clamp(0, q3 as i64) as u32;
                            let (v, nb) = if idx.wrapping_add(d as u64) % 2 == 0 { (1usize, 128usize) } else { (0usize, 48usize) };
                            let qn = nb / 4;
                            let mut buckets = [0x0101_0101u32; 256];
                            for i in 0..nb {
                                let cls = ((i * 37 + 11) % nb) / qn;
                                buckets[i] = [q, q, q3, q3][cls];
                            }
                            let p = GeneratorParts { buckets, len: 70_000, checksum: [9, 0, 0], tail: [2, 2, 2, 2], tail_len: 4 };
                            acc.evals += 1;
                            acc.transitions += 8;
                            if ref_qratio_int(q, q3) != ref_qratio_f32(q, q3) {
                                acc.nontrivial += 1;
                                acc.sample(idx * 3 + (d + 1) as u64, || json!({"q": q, "q3": q3, "int": ref_qratio_int(q, q3), "f32": ref_qratio_f32(q, q3)}));
                            }
                            let res = with_variant!(v, judge_injected(&p, dist_opts));
                            match res {
                                Ok(fp) => acc.outcomes.insert(fp),
                                Err(e) => {
                                    acc.fail(idx * 3 + (d + 1) as u64, "qratio-boundaries", format!("{}: quartiles ({q},{q},{q3}): {e}", VARIANT_NAMES[v]),
                                             json!({"kind": "inject", "variant": VARIANT_NAMES[v], "parts": hooked::parts_json(&p)}));
                                    return;
                                }
                            }
                        }
                    });
                },
            );
        }
        if ctx.want("large-counts") && !quick {
            let total: u64 = 256 << 20;
            r.section(
                "large-counts",
                "streams S3 (a4 0e) and S0 really fed up to 256 MiB in 1 MiB+3 pieces; at every 2^k-byte checkpoint the real state (read back through the hook) is compared with the byte-at-a-time reference state, and all 32 finalizations are compared; also validates the injection hook (from_parts(to_parts(g)) finalizes identically); non-trivial = checkpoints",
                "2 streams x 5 variants x 256 MiB, checkpoints at 2^k and 2^k+1000003",
                true,
                |s| {
                    s.acc = par_for(10, 1, |idx, acc| {
                        let v = (idx % 5) as usize;
                        let st = if idx / 5 == 0 { Stream::A40e } else { Stream::Mixed };
                        fn go<V: Variant>(st: Stream, total: u64, acc: &mut Acc, key: u64) {
                            use crate::checks::common::hooked::*;
                            let mut g = V::new_gen();
                            let mut r = V::ref_gen();
                            let mut off = 0u64;
                            let piece = (1usize << 20) + 3;
                            let mut buf = vec![0u8; piece];
                            // checkpoints: 2^k and 2^k + 1000003 for k >= 16, in increasing order
                            let mut cps: Vec<u64> = (16..=40).flat_map(|k| [1u64 << k, (1u64 << k) + 1_000_003]).filter(|&c| c <= total).collect();
                            cps.sort();
                            cps.dedup();
                            let mut cpi = 0usize;
                            let mut next_cp = cps.first().copied().unwrap_or(u64::MAX);
                            while off < total {
                                let k = ((total - off) as usize).min(piece).min(next_cp.saturating_sub(off).max(1).min(usize::MAX as u64) as usize);
                                st.fill(off, &mut buf[..k]);
                                g.update(&buf[..k]);
                                r.feed_all(&buf[..k]);
                                off += k as u64;
                                acc.transitions += 1;
                                if off == next_cp {
                                    cpi += 1;
                                    next_cp = cps.get(cpi).copied().unwrap_or(u64::MAX);
                                    acc.evals += 1;
                                    acc.nontrivial += 1;
                                    let p = V::gen_to_parts(&g);
                                    let res = parts_match_ref::<V>(&p, &r)
                                        .and_then(|_| compare_all_opts::<V>(&g, &r).map(|o| outcomes_fp(&o)))
                                        .and_then(|fp| {
                                            let twin = V::gen_from_parts(&p);
                                            compare_all_opts::<V>(&twin, &r).map_err(|e| format!("injected twin: {e}")).map(|_| fp)
                                        });
                                    match res {
                                        Ok(fp) => {
                                            acc.outcomes.insert(fp);
                                            acc.sample(key + off, || json!({"variant": V::NAME, "stream": st.name(), "n": off, "max_bucket": p.buckets.iter().max()}));
                                        }
                                        Err(e) => {
                                            acc.fail(key + off, "large-counts", format!("{} {} after {off} bytes: {e}", V::NAME, st.name()),
                                                     json!({"kind": "prefix", "variant": V::NAME, "stream": st.name(), "n": off}));
                                            return;
                                        }
                                    }
                                }
                            }
                        }
                        let key = idx << 40;
                        match v {
                            0 => go::<VShort>(st, total, acc, key),
                            1 => go::<VNormal>(st, total, acc, key),
                            2 => go::<VNormalLC>(st, total, acc, key),
                            3 => go::<VLong>(st, total, acc, key),
                            _ => go::<VLongLC>(st, total, acc, key),
                        }
                    });
                },
            );
        }
    }
    crate::seq::section(r, ctx, "generate");
}

pub fn replay(case: &Value) -> Result<(), String> {
    let kind = case["kind"].as_str().unwrap_or("");
    match kind {
        "input" => {
            let data = unhex(case["data"].as_str().ok_or("data")?);
            let v = case["variant"].as_str().ok_or("variant")?;
            println!("variant={v} input={} bytes", data.len());
            judge_input_dyn(variant_index(v), &data).map(|outs| {
                println!("all 32 outcomes agree; default = {}", outcome_str(&outs[0]));
            })
        }
        "prefix" => {
            let v = case["variant"].as_str().ok_or("variant")?;
            let st = Stream::from_name(case["stream"].as_str().ok_or("stream")?).ok_or("stream name")?;
            let n = case["n"].as_u64().ok_or("n")?;
            with_variant!(v, judge_prefix_one(st, n))
        }
        #[cfg(fast_tlsh_verif)]
        "bmap" => {
            let g = |k: &str| case[k].as_u64().unwrap_or(0) as u8;
            let (salt, b1, b2, b3) = (g("salt"), g("b1"), g("b2"), g("b3"));
            let (real, expect) = if case["is48"].as_bool().unwrap_or(false) {
                (tlsh::verif::b_mapping_48(salt, b1, b2, b3), ref_bmap48(salt, b1, b2, b3))
            } else {
                (tlsh::verif::b_mapping_256(salt, b1, b2, b3), ref_bmap256(salt, b1, b2, b3))
            };
            if real == expect { Ok(()) } else { Err(format!("b_mapping = {real}, reference = {expect}")) }
        }
        #[cfg(fast_tlsh_verif)]
        "step" => {
            let v = case["variant"].as_str().ok_or("variant")?;
            let p = hooked::parts_from_json(&case["parts"]);
            let b = case["byte"].as_u64().ok_or("byte")? as u8;
            with_variant!(v, judge_step(&p, b))
        }
        #[cfg(fast_tlsh_verif)]
        "inject" => {
            let v = case["variant"].as_str().ok_or("variant")?;
            let p = hooked::parts_from_json(&case["parts"]);
            let all: Vec<Opts> = Opts::all().collect();
            with_variant!(v, judge_injected(&p, &all)).map(|_| ())
        }
        k => Err(format!("unknown replay kind {k}")),
    }
}
