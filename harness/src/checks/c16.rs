//! C16 — serde: canonical encodings, lossless round trip, malformed input is an error.
#![cfg(feature = "serde")]

use crate::checks::codec::*;
use crate::checks::common::*;
use crate::refmodel::*;
use crate::report::*;
use crate::variant::*;
use crate::{with_variant, Ctx};
use serde::de::{self, DeserializeOwned, Deserializer, IntoDeserializer, SeqAccess, Visitor};
use serde::{forward_to_deserialize_any, Serialize};
use serde_json::{json, Value};
use std::cell::Cell;
use tlsh::FuzzyHashType;

pub trait SerdeVariant: Variant
where
    Self::Hash: Serialize + DeserializeOwned,
{
}
impl SerdeVariant for VShort {}
impl SerdeVariant for VNormal {}
impl SerdeVariant for VNormalLC {}
impl SerdeVariant for VLong {}
impl SerdeVariant for VLongLC {}

// ---------------------------------------------------------------------------
// scripted mock Deserializer

#[derive(Debug, Clone, PartialEq)]
pub enum Event {
    Str(String),
    BorrowedStr(String),
    StringOwned(String),
    Bytes(Vec<u8>),
    BorrowedBytes(Vec<u8>),
    ByteBuf(Vec<u8>),
    U8(u8),
    U64(u64),
    I64(i64),
    F64(f64),
    Bool(bool),
    Char(char),
    Unit,
    None,
    SomeStr(String),
    SomeBytes(Vec<u8>),
    SeqOfBytes(Vec<u8>),
    SeqOfBytesHinted(Vec<u8>, usize),
    EmptyMap,
    NewtypeStr(String),
    NewtypeBytes(Vec<u8>),
}

impl Event {
    pub fn name(&self) -> &'static str {
        match self {
            Event::Str(_) => "str",
            Event::BorrowedStr(_) => "borrowed_str",
            Event::StringOwned(_) => "string",
            Event::Bytes(_) => "bytes",
            Event::BorrowedBytes(_) => "borrowed_bytes",
            Event::ByteBuf(_) => "byte_buf",
            Event::U8(_) => "u8",
            Event::U64(_) => "u64",
            Event::I64(_) => "i64",
            Event::F64(_) => "f64",
            Event::Bool(_) => "bool",
            Event::Char(_) => "char",
            Event::Unit => "unit",
            Event::None => "none",
            Event::SomeStr(_) => "some(str)",
            Event::SomeBytes(_) => "some(bytes)",
            Event::SeqOfBytes(_) => "seq",
            Event::SeqOfBytesHinted(_, _) => "seq(size_hint)",
            Event::EmptyMap => "map",
            Event::NewtypeStr(_) => "newtype(str)",
            Event::NewtypeBytes(_) => "newtype(bytes)",
        }
    }
    fn payload_json(&self) -> Value {
        match self {
            Event::Str(s) | Event::BorrowedStr(s) | Event::StringOwned(s) | Event::SomeStr(s) | Event::NewtypeStr(s) => json!({"text": s}),
            Event::Bytes(b) | Event::BorrowedBytes(b) | Event::ByteBuf(b) | Event::SomeBytes(b) | Event::SeqOfBytes(b) | Event::NewtypeBytes(b) => json!({"bytes": hex(b)}),
            Event::SeqOfBytesHinted(b, h) => json!({"bytes": hex(b), "size_hint": h}),
            other => json!(format!("{other:?}")),
        }
    }
}

#[derive(Debug)]
pub struct MockError(String);
impl std::fmt::Display for MockError {
    fn fmt(&self, f: &mut std::fmt::Formatter<'_>) -> std::fmt::Result {
        f.write_str(&self.0)
    }
}
impl std::error::Error for MockError {}
impl de::Error for MockError {
    fn custom<T: std::fmt::Display>(msg: T) -> Self {
        MockError(msg.to_string())
    }
}

pub struct Mock<'a> {
    pub human: bool,
    pub event: &'a Event,
    pub requested: &'a Cell<&'static str>,
}

struct ByteSeq<'a> {
    data: &'a [u8],
    pos: usize,
    /// what size_hint() answers (advisory in serde; may be absent or wrong)
    hint: Option<usize>,
}
impl<'de, 'a> SeqAccess<'de> for ByteSeq<'a> {
    type Error = MockError;
    fn next_element_seed<T: de::DeserializeSeed<'de>>(&mut self, seed: T) -> Result<Option<T::Value>, MockError> {
        if self.pos >= self.data.len() {
            return Ok(Option::None);
        }
        let b = self.data[self.pos];
        self.pos += 1;
        seed.deserialize(b.into_deserializer()).map(Some)
    }
    fn size_hint(&self) -> Option<usize> {
        self.hint.map(|h| h.saturating_sub(self.pos))
    }
}

impl<'de, 'a: 'de> Mock<'a> {
    fn dispatch<V: Visitor<'de>>(self, visitor: V) -> Result<V::Value, MockError> {
        match self.event {
            Event::Str(s) => visitor.visit_str(s),
            Event::BorrowedStr(s) => visitor.visit_borrowed_str(s.as_str()),
            Event::StringOwned(s) => visitor.visit_string(s.clone()),
            Event::Bytes(b) => visitor.visit_bytes(b),
            Event::BorrowedBytes(b) => visitor.visit_borrowed_bytes(b.as_slice()),
            Event::ByteBuf(b) => visitor.visit_byte_buf(b.clone()),
            Event::U8(x) => visitor.visit_u8(*x),
            Event::U64(x) => visitor.visit_u64(*x),
            Event::I64(x) => visitor.visit_i64(*x),
            Event::F64(x) => visitor.visit_f64(*x),
            Event::Bool(x) => visitor.visit_bool(*x),
            Event::Char(x) => visitor.visit_char(*x),
            Event::Unit => visitor.visit_unit(),
            Event::None => visitor.visit_none(),
            Event::SomeStr(_) | Event::SomeBytes(_) => visitor.visit_some(self.inner()),
            Event::SeqOfBytes(b) => visitor.visit_seq(ByteSeq { data: b, pos: 0, hint: Option::None }),
            Event::SeqOfBytesHinted(b, h) => visitor.visit_seq(ByteSeq { data: b, pos: 0, hint: Some(*h) }),
            Event::EmptyMap => visitor.visit_map(de::value::MapDeserializer::<std::iter::Empty<(u8, u8)>, MockError>::new(std::iter::empty())),
            Event::NewtypeStr(_) | Event::NewtypeBytes(_) => visitor.visit_newtype_struct(self.inner()),
        }
    }
    /// The deserializer handed to visit_some / visit_newtype_struct: same payload as a plain event.
    fn inner(self) -> InnerMock<'a> {
        InnerMock { human: self.human, event: self.event, requested: self.requested }
    }
}

pub struct InnerMock<'a> {
    human: bool,
    event: &'a Event,
    requested: &'a Cell<&'static str>,
}

impl<'de, 'a: 'de> Deserializer<'de> for InnerMock<'a> {
    type Error = MockError;
    fn is_human_readable(&self) -> bool {
        self.human
    }
    fn deserialize_any<V: Visitor<'de>>(self, visitor: V) -> Result<V::Value, MockError> {
        let _ = self.requested;
        match self.event {
            Event::SomeStr(s) | Event::NewtypeStr(s) => visitor.visit_str(s),
            Event::SomeBytes(b) | Event::NewtypeBytes(b) => visitor.visit_bytes(b),
            _ => Err(de::Error::custom("inner mock: unexpected")),
        }
    }
    forward_to_deserialize_any! {
        bool i8 i16 i32 i64 i128 u8 u16 u32 u64 u128 f32 f64 char str string bytes byte_buf option unit
        unit_struct newtype_struct seq tuple tuple_struct map struct enum identifier ignored_any
    }
}

impl<'de, 'a: 'de> Deserializer<'de> for Mock<'a> {
    type Error = MockError;
    fn is_human_readable(&self) -> bool {
        self.human
    }
    fn deserialize_any<V: Visitor<'de>>(self, visitor: V) -> Result<V::Value, MockError> {
        self.requested.set("any");
        self.dispatch(visitor)
    }
    fn deserialize_str<V: Visitor<'de>>(self, visitor: V) -> Result<V::Value, MockError> {
        self.requested.set("str");
        self.dispatch(visitor)
    }
    fn deserialize_string<V: Visitor<'de>>(self, visitor: V) -> Result<V::Value, MockError> {
        self.requested.set("string");
        self.dispatch(visitor)
    }
    fn deserialize_bytes<V: Visitor<'de>>(self, visitor: V) -> Result<V::Value, MockError> {
        self.requested.set("bytes");
        self.dispatch(visitor)
    }
    fn deserialize_byte_buf<V: Visitor<'de>>(self, visitor: V) -> Result<V::Value, MockError> {
        self.requested.set("byte_buf");
        self.dispatch(visitor)
    }
    forward_to_deserialize_any! {
        bool i8 i16 i32 i64 i128 u8 u16 u32 u64 u128 f32 f64 char option unit
        unit_struct newtype_struct seq tuple tuple_struct map struct enum identifier ignored_any
    }
}

// ---------------------------------------------------------------------------

/// What the corresponding parser of this same build says about a payload.
fn text_parser<V: Variant>(p: &[u8]) -> Option<V::Hash> {
    <V::Hash as FuzzyHashType>::from_str_bytes(p, None).ok()
}
fn binary_parser<V: Variant>(p: &[u8]) -> Option<V::Hash> {
    V::from_slice(p).ok()
}

/// Judges one scripted event. Returns an outcome class.
pub fn judge_event<V: SerdeVariant>(human: bool, ev: &Event) -> Result<u64, String>
where
    V::Hash: Serialize + DeserializeOwned,
{
    let requested = Cell::new("none");
    let res = catch(|| <V::Hash as serde::Deserialize>::deserialize(Mock { human, event: ev, requested: &requested }))
        .map_err(|p| format!("{} deserialize (human_readable={human}) panicked on event {} {}: {p}", V::NAME, ev.name(), ev.payload_json()))?;
    // expected acceptance
    let (must_accept, may_accept): (Option<V::Hash>, Option<V::Hash>) = match (human, ev) {
        (true, Event::Str(s)) | (true, Event::BorrowedStr(s)) | (true, Event::StringOwned(s)) => {
            let v = text_parser::<V>(s.as_bytes());
            (v, v)
        }
        // a human-readable format that hands over raw bytes: may be read as the hex text, never as anything else
        (true, Event::Bytes(b)) | (true, Event::BorrowedBytes(b)) | (true, Event::ByteBuf(b)) => (Option::None, text_parser::<V>(b)),
        (false, Event::Bytes(b)) | (false, Event::BorrowedBytes(b)) | (false, Event::ByteBuf(b)) => {
            let v = binary_parser::<V>(b);
            (v, v)
        }
        // a compact format without a byte-string type hands the binary form over as a sequence of u8: the impl may
        // reject that outright (it does at the pinned commit) or read it, but then exactly as the binary parser would
        (false, Event::SeqOfBytes(b)) | (false, Event::SeqOfBytesHinted(b, _)) => (Option::None, binary_parser::<V>(b)),
        _ => (Option::None, Option::None),
    };
    match (&res, must_accept, may_accept) {
        (Ok(h), _, Some(m)) if *h == m => Ok(1),
        (Ok(h), _, _) => Err(format!("{} deserialize (human_readable={human}) accepted event {} {} as {} but the corresponding parser does not give that value", V::NAME, ev.name(), ev.payload_json(), h)),
        (Err(_), Some(m), _) => Err(format!("{} deserialize (human_readable={human}) rejected event {} {} but the corresponding parser accepts it as {}", V::NAME, ev.name(), ev.payload_json(), m)),
        (Err(_), Option::None, _) => Ok(0),
    }
    .map(|c| c | (match requested.get() { "str" => 1, "string" => 2, "bytes" => 3, "byte_buf" => 4, _ => 0 }) << 4)
}

fn text_payloads<V: Variant>(bytes: &[u8]) -> Vec<String> {
    let canon = String::from_utf8(ref_hex_format(bytes, V::CK, true)).unwrap();
    let mut v = vec![
        canon.clone(),
        canon.to_ascii_lowercase().replace("t1", "T1"),
        canon[2..].to_string(),
        canon[2..].to_ascii_lowercase(),
        canon[..canon.len() - 1].to_string(),
        format!("{canon}0"),
        String::new(),
        format!("{canon}{}", &canon[2..]),
        format!("T2{}", &canon[2..]),
        format!("t1{}", &canon[2..]),
        " ".repeat(canon.len()),
    ];
    for pos in [2usize, 2 + V::CK * 2, 2 + V::CK * 2 + 2, 2 + V::CK * 2 + 4, canon.len() - 1] {
        let mut s = canon.clone().into_bytes();
        s[pos] = b'g';
        v.push(String::from_utf8(s).unwrap());
    }
    // valid UTF-8 with multi-byte characters near the prefix, of exactly the prefixed and the plain byte length
    for pre in ["T\u{e4}", "\u{20ac}", "\u{e4}1", "T\u{20ac}", "\u{1d11e}", "T1\u{e9}", "\u{e9}T1"] {
        for total in [V::STRLEN, V::STRLEN - 2] {
            let mut s = String::from(pre);
            while s.len() < total {
                s.push('0');
            }
            if s.len() == total {
                v.push(s);
            }
        }
    }
    // strict-parser relevant: checksum 49 (48-bucket) and length code 170
    let mut b = bytes.to_vec();
    b[V::CK] = 170;
    v.push(String::from_utf8(ref_hex_format(&b, V::CK, true)).unwrap());
    let mut b = bytes.to_vec();
    b[0] = 49;
    v.push(String::from_utf8(ref_hex_format(&b, V::CK, true)).unwrap());
    let mut b = bytes.to_vec();
    b[0] = 0xff;
    b[V::CK] = 0xff;
    v.push(String::from_utf8(ref_hex_format(&b, V::CK, false)).unwrap());
    v
}

fn binary_payloads<V: Variant>(bytes: &[u8]) -> Vec<Vec<u8>> {
    let mut v = vec![bytes.to_vec(), bytes[..bytes.len() - 1].to_vec(), [bytes, &[0u8][..]].concat(), vec![], [bytes, bytes].concat(), vec![0xff; V::SIZE], vec![0; V::SIZE]];
    let mut b = bytes.to_vec();
    b[V::CK] = 170;
    v.push(b);
    let mut b = bytes.to_vec();
    b[V::CK] = 255;
    v.push(b);
    let mut b = bytes.to_vec();
    b[0] = 49;
    v.push(b);
    let mut b = bytes.to_vec();
    b[0] = 48;
    b[V::CK] = 169;
    v.push(b);
    v
}

fn base_value<V: Variant>(k: u64) -> Vec<u8> {
    let mut b: Vec<u8> = (0..V::SIZE).map(|i| (crate::streams::splitmix64(k * 7919 + i as u64) >> 24) as u8).collect();
    if V::NB == 48 {
        b[0] %= 49;
    }
    b[V::CK] %= 170;
    b
}

pub fn events_for<V: Variant>() -> Vec<Event> {
    let mut evs = Vec::new();
    for k in 0..2u64 {
        let bytes = base_value::<V>(k);
        for t in text_payloads::<V>(&bytes) {
            evs.push(Event::Str(t.clone()));
            evs.push(Event::BorrowedStr(t.clone()));
            evs.push(Event::StringOwned(t.clone()));
            evs.push(Event::Bytes(t.clone().into_bytes()));
            evs.push(Event::BorrowedBytes(t.clone().into_bytes()));
            evs.push(Event::ByteBuf(t.clone().into_bytes()));
            evs.push(Event::SomeStr(t.clone()));
            evs.push(Event::NewtypeStr(t.clone()));
        }
        for b in binary_payloads::<V>(&bytes) {
            evs.push(Event::Bytes(b.clone()));
            evs.push(Event::BorrowedBytes(b.clone()));
            evs.push(Event::ByteBuf(b.clone()));
            evs.push(Event::Str(String::from_utf8_lossy(&b).into_owned()));
            evs.push(Event::SeqOfBytes(b.clone()));
            evs.push(Event::SeqOfBytesHinted(b.clone(), b.len()));
            evs.push(Event::SeqOfBytesHinted(b.clone(), V::SIZE));
            evs.push(Event::SeqOfBytesHinted(b.clone(), 0));
            evs.push(Event::SomeBytes(b.clone()));
            evs.push(Event::NewtypeBytes(b.clone()));
        }
    }
    evs.extend([
        Event::U8(0), Event::U8(255), Event::U64(0), Event::U64(u64::MAX), Event::I64(-1), Event::I64(i64::MIN), Event::F64(0.0), Event::F64(f64::NAN),
        Event::Bool(true), Event::Bool(false), Event::Char('T'), Event::Char('\u{0}'), Event::Unit, Event::None, Event::EmptyMap,
    ]);
    evs
}

// ---------------------------------------------------------------------------
// strict recording Serializer: a hash must be exactly ONE str (human-readable) or ONE bytes
// (compact) item of the serde data model, nothing wrapped around it

#[derive(Debug, PartialEq)]
pub enum Recorded {
    Str(String),
    Bytes(Vec<u8>),
    /// serialize_str was handed a `&str` whose bytes are not UTF-8 (undefined behaviour made visible)
    InvalidStr(Vec<u8>),
}

pub struct RecSer {
    pub human: bool,
    /// a misbehaving (but safe) serializer: successive is_human_readable() answers; the last one repeats
    pub answers: Option<(std::cell::Cell<usize>, Vec<bool>)>,
}

impl RecSer {
    pub fn constant(human: bool) -> Self {
        RecSer { human, answers: Option::None }
    }
    pub fn flipping(answers: &[bool]) -> Self {
        RecSer { human: answers[0], answers: Some((std::cell::Cell::new(0), answers.to_vec())) }
    }
}

macro_rules! reject {
    ($($name:ident($($arg:ty),*);)*) => {
        $(fn $name(self, $(_: $arg),*) -> Result<Recorded, MockError> {
            Err(serde::ser::Error::custom(concat!("unexpected ", stringify!($name))))
        })*
    };
}

impl serde::ser::Error for MockError {
    fn custom<T: std::fmt::Display>(msg: T) -> Self {
        MockError(msg.to_string())
    }
}

impl serde::Serializer for RecSer {
    type Ok = Recorded;
    type Error = MockError;
    type SerializeSeq = serde::ser::Impossible<Recorded, MockError>;
    type SerializeTuple = serde::ser::Impossible<Recorded, MockError>;
    type SerializeTupleStruct = serde::ser::Impossible<Recorded, MockError>;
    type SerializeTupleVariant = serde::ser::Impossible<Recorded, MockError>;
    type SerializeMap = serde::ser::Impossible<Recorded, MockError>;
    type SerializeStruct = serde::ser::Impossible<Recorded, MockError>;
    type SerializeStructVariant = serde::ser::Impossible<Recorded, MockError>;
    fn is_human_readable(&self) -> bool {
        match &self.answers {
            Some((i, a)) => {
                let k = i.get();
                i.set(k + 1);
                a[k.min(a.len() - 1)]
            }
            Option::None => self.human,
        }
    }
    fn serialize_str(self, v: &str) -> Result<Recorded, MockError> {
        // record the raw bytes: in a build with feature 'unsafe' a `&str` that is not UTF-8 can arrive here
        match std::str::from_utf8(v.as_bytes()) {
            Ok(s) => Ok(Recorded::Str(s.to_string())),
            Err(_) => Ok(Recorded::InvalidStr(v.as_bytes().to_vec())),
        }
    }
    fn serialize_bytes(self, v: &[u8]) -> Result<Recorded, MockError> {
        Ok(Recorded::Bytes(v.to_vec()))
    }
    reject! {
        serialize_bool(bool); serialize_i8(i8); serialize_i16(i16); serialize_i32(i32); serialize_i64(i64);
        serialize_u8(u8); serialize_u16(u16); serialize_u32(u32); serialize_u64(u64); serialize_f32(f32); serialize_f64(f64);
        serialize_char(char); serialize_none(); serialize_unit(); serialize_unit_struct(&'static str);
        serialize_unit_variant(&'static str, u32, &'static str);
    }
    fn serialize_some<T: ?Sized + Serialize>(self, _: &T) -> Result<Recorded, MockError> {
        Err(serde::ser::Error::custom("unexpected serialize_some"))
    }
    fn serialize_newtype_struct<T: ?Sized + Serialize>(self, name: &'static str, _: &T) -> Result<Recorded, MockError> {
        Err(serde::ser::Error::custom(format!("unexpected serialize_newtype_struct({name:?}, ..)")))
    }
    fn serialize_newtype_variant<T: ?Sized + Serialize>(self, _: &'static str, _: u32, _: &'static str, _: &T) -> Result<Recorded, MockError> {
        Err(serde::ser::Error::custom("unexpected serialize_newtype_variant"))
    }
    fn serialize_seq(self, _: Option<usize>) -> Result<Self::SerializeSeq, MockError> {
        Err(serde::ser::Error::custom("unexpected serialize_seq"))
    }
    fn serialize_tuple(self, _: usize) -> Result<Self::SerializeTuple, MockError> {
        Err(serde::ser::Error::custom("unexpected serialize_tuple"))
    }
    fn serialize_tuple_struct(self, _: &'static str, _: usize) -> Result<Self::SerializeTupleStruct, MockError> {
        Err(serde::ser::Error::custom("unexpected serialize_tuple_struct"))
    }
    fn serialize_tuple_variant(self, _: &'static str, _: u32, _: &'static str, _: usize) -> Result<Self::SerializeTupleVariant, MockError> {
        Err(serde::ser::Error::custom("unexpected serialize_tuple_variant"))
    }
    fn serialize_map(self, _: Option<usize>) -> Result<Self::SerializeMap, MockError> {
        Err(serde::ser::Error::custom("unexpected serialize_map"))
    }
    fn serialize_struct(self, _: &'static str, _: usize) -> Result<Self::SerializeStruct, MockError> {
        Err(serde::ser::Error::custom("unexpected serialize_struct"))
    }
    fn serialize_struct_variant(self, _: &'static str, _: u32, _: &'static str, _: usize) -> Result<Self::SerializeStructVariant, MockError> {
        Err(serde::ser::Error::custom("unexpected serialize_struct_variant"))
    }
}

/// The data-model events a hash serializes to.
pub fn judge_serialize_events<V: SerdeVariant>(bytes: &[u8]) -> Result<(), String>
where
    V::Hash: Serialize + DeserializeOwned,
{
    let h = V::from_slice(bytes).map_err(|e| format!("try_from: {e:?}"))?;
    let text = String::from_utf8(ref_hex_format(bytes, V::CK, true)).unwrap();
    match catch(|| h.serialize(RecSer::constant(true))).map_err(|p| format!("serialize panicked: {p}"))? {
        Ok(Recorded::Str(s)) if s == text => {}
        other => return Err(format!("{} human-readable serialization of {} is {:?}, expected exactly one str item {text:?}", V::NAME, hex(bytes), other.map_err(|e| e.0))),
    }
    match catch(|| h.serialize(RecSer::constant(false))).map_err(|p| format!("serialize panicked: {p}"))? {
        Ok(Recorded::Bytes(b)) if b == bytes => {}
        other => return Err(format!("{} compact serialization of {} is {:?}, expected exactly one bytes item carrying the binary form", V::NAME, hex(bytes), other.map_err(|e| e.0))),
    }
    Ok(())
}

/// A safe but misbehaving Serializer (C17: caller-supplied trait implementations): its is_human_readable()
/// answer changes between calls. Whatever it is handed is outside what C16 defines; the one thing that must
/// never happen (C17) is undefined behaviour in the caller's safe code: a `&str` that is not UTF-8.
pub fn judge_flipping_serializer<V: SerdeVariant>(bytes: &[u8]) -> Result<(), String>
where
    V::Hash: Serialize + DeserializeOwned,
{
    let h = V::from_slice(bytes).map_err(|e| format!("try_from: {e:?}"))?;
    let text = String::from_utf8(ref_hex_format(bytes, V::CK, true)).unwrap();
    for pattern in [&[false, true][..], &[true, false], &[false, true, false], &[true, false, true], &[false, false, true], &[true, true, false]] {
        match catch(|| h.serialize(RecSer::flipping(pattern))) {
            Err(_) => {}     // a clean panic is the worst the property allows
            Ok(Err(_)) => {} // an error is fine
            Ok(Ok(Recorded::Str(s))) if s == text => {}
            Ok(Ok(Recorded::Bytes(b))) if b == bytes => {}
            Ok(Ok(Recorded::InvalidStr(raw))) => {
                return Err(format!("{}: a Serializer whose is_human_readable() answers {pattern:?} was handed a &str that is not UTF-8 ({}) - undefined behaviour in safe caller code", V::NAME, hex(&raw)));
            }
            // anything else a serializer of undefined mode receives (e.g. the binary form as a str that happens to be
            // valid UTF-8) is outside what the properties define: not judged
            Ok(Ok(_)) => {}
        }
    }
    Ok(())
}

/// Real formats: canonical encodings and round trip.
pub fn judge_formats<V: SerdeVariant>(bytes: &[u8]) -> Result<(), String>
where
    V::Hash: Serialize + DeserializeOwned,
{
    judge_serialize_events::<V>(bytes)?;
    let h = V::from_slice(bytes).map_err(|e| format!("try_from: {e:?}"))?;
    // JSON
    let js = catch(|| serde_json::to_string(&h)).map_err(|p| format!("json serialize panicked: {p}"))?.map_err(|e| format!("json serialize: {e}"))?;
    let expect = format!("\"{}\"", h);
    if js != expect {
        return Err(format!("{} JSON form {js} but expected {expect}", V::NAME));
    }
    let back: V::Hash = serde_json::from_str(&js).map_err(|e| format!("{} JSON round trip failed: {e}", V::NAME))?;
    if back != h {
        return Err(format!("{} JSON round trip changed the value", V::NAME));
    }
    let val = serde_json::to_value(h).map_err(|e| format!("to_value: {e}"))?;
    if val != Value::String(h.to_string()) {
        return Err(format!("{} serde_json::to_value is not the hex string", V::NAME));
    }
    let back: V::Hash = serde_json::from_value(val).map_err(|e| format!("{} from_value failed: {e}", V::NAME))?;
    if back != h {
        return Err(format!("{} from_value changed the value", V::NAME));
    }
    // CBOR: a byte string carrying the binary form
    let mut cbor = Vec::new();
    ciborium::into_writer(&h, &mut cbor).map_err(|e| format!("cbor serialize: {e}"))?;
    let mut expect: Vec<u8> = if V::SIZE < 24 { vec![0x40 + V::SIZE as u8] } else { vec![0x58, V::SIZE as u8] };
    expect.extend_from_slice(bytes);
    if cbor != expect {
        return Err(format!("{} CBOR form {} but expected {}", V::NAME, hex(&cbor), hex(&expect)));
    }
    let back: V::Hash = ciborium::from_reader(cbor.as_slice()).map_err(|e| format!("{} CBOR round trip failed: {e}", V::NAME))?;
    if back != h {
        return Err(format!("{} CBOR round trip changed the value", V::NAME));
    }
    // postcard: varint length + the binary form
    let pc = postcard::to_allocvec(&h).map_err(|e| format!("postcard serialize: {e}"))?;
    let mut expect = vec![V::SIZE as u8];
    expect.extend_from_slice(bytes);
    if pc != expect {
        return Err(format!("{} postcard form {} but expected {}", V::NAME, hex(&pc), hex(&expect)));
    }
    let back: V::Hash = postcard::from_bytes(&pc).map_err(|e| format!("{} postcard round trip failed: {e}", V::NAME))?;
    if back != h {
        return Err(format!("{} postcard round trip changed the value", V::NAME));
    }
    Ok(())
}

/// Real formats: malformed documents are errors, never panics, and accepted ones agree with the parser.
pub fn judge_documents<V: SerdeVariant>(acc: &mut Acc, section: &str)
where
    V::Hash: Serialize + DeserializeOwned,
{
    let bytes = base_value::<V>(0);
    // JSON documents
    let mut docs: Vec<String> = vec!["123".into(), "null".into(), "[1,2]".into(), "{\"a\":1}".into(), "true".into(), "1.5".into(), "\"".into(), "".into(), "[]".into(), "\"\\u0054\"".into()];
    for t in text_payloads::<V>(&bytes) {
        docs.push(serde_json::to_string(&t).unwrap());
    }
    let arr: Vec<u8> = bytes.clone();
    docs.push(serde_json::to_string(&arr).unwrap());
    for (i, d) in docs.iter().enumerate() {
        acc.evals += 1;
        acc.transitions += 1;
        let res = catch(|| serde_json::from_str::<V::Hash>(d));
        let expect = serde_json::from_str::<String>(d).ok().and_then(|s| text_parser::<V>(s.as_bytes()));
        match res {
            Err(p) => return acc.fail(i as u64, section, format!("{} JSON document {d} made deserialize panic: {p}", V::NAME), json!({"kind": "json-doc", "key": "serde-panic", "variant": V::NAME, "doc": d})),
            Ok(r) => {
                if r.as_ref().ok() != expect.as_ref() {
                    return acc.fail(i as u64, section, format!("{} JSON document {d}: deserialize = {:?} but the text parser says {:?}", V::NAME, r.map(|h| h.to_string()).map_err(|e| e.to_string()), expect.map(|h| h.to_string())), json!({"kind": "json-doc", "key": "serde-json", "variant": V::NAME, "doc": d}));
                }
                acc.outcomes.insert(expect.is_some() as u64);
                if expect.is_none() {
                    acc.nontrivial += 1;
                }
            }
        }
    }
    // postcard / CBOR documents built from binary payloads
    for (i, b) in binary_payloads::<V>(&bytes).iter().enumerate() {
        let expect = binary_parser::<V>(b);
        let mut pc = Vec::new();
        // postcard varint length
        let mut n = b.len();
        loop {
            let mut byte = (n & 0x7f) as u8;
            n >>= 7;
            if n > 0 {
                byte |= 0x80;
            }
            pc.push(byte);
            if n == 0 {
                break;
            }
        }
        pc.extend_from_slice(b);
        let mut cb: Vec<u8> = if b.len() < 24 { vec![0x40 + b.len() as u8] } else { vec![0x58, b.len() as u8] };
        cb.extend_from_slice(b);
        for (fmt, doc) in [("postcard", &pc), ("cbor", &cb)] {
            acc.evals += 1;
            acc.transitions += 1;
            let res = catch(|| -> Result<V::Hash, String> {
                if fmt == "postcard" {
                    postcard::from_bytes::<V::Hash>(doc).map_err(|e| e.to_string())
                } else {
                    ciborium::from_reader::<V::Hash, _>(doc.as_slice()).map_err(|e| e.to_string())
                }
            });
            match res {
                Err(p) => return acc.fail(1000 + i as u64, section, format!("{} {fmt} document {} made deserialize panic: {p}", V::NAME, hex(doc)), json!({"kind": "bin-doc", "key": "serde-panic", "variant": V::NAME, "format": fmt, "doc": hex(doc)})),
                Ok(r) => {
                    if r.as_ref().ok() != expect.as_ref() {
                        return acc.fail(1000 + i as u64, section, format!("{} {fmt} document {}: deserialize = {:?} but the binary parser says {:?}", V::NAME, hex(doc), r.map(|h| h.to_string()), expect.map(|h| h.to_string())), json!({"kind": "bin-doc", "key": "serde-bin", "variant": V::NAME, "format": fmt, "doc": hex(doc)}));
                    }
                    acc.outcomes.insert(2 + expect.is_some() as u64);
                    if expect.is_none() {
                        acc.nontrivial += 1;
                    }
                }
            }
        }
        // truncated documents
        for cut in [0usize, 1, pc.len() / 2] {
            let res = catch(|| postcard::from_bytes::<V::Hash>(&pc[..cut.min(pc.len())]).is_ok());
            acc.evals += 1;
            acc.transitions += 1;
            if let Err(p) = res {
                return acc.fail(2000 + i as u64, section, format!("{} truncated postcard document made deserialize panic: {p}", V::NAME), json!({"kind": "bin-doc", "key": "serde-panic", "variant": V::NAME, "format": "postcard", "doc": hex(&pc[..cut.min(pc.len())])}));
            }
        }
    }
    // a CBOR text string (human-readable form) offered to the compact deserializer
    let text = ref_hex_format(&bytes, V::CK, true);
    let mut cb = vec![0x78, text.len() as u8];
    cb.extend_from_slice(&text);
    acc.evals += 1;
    acc.transitions += 1;
    match catch(|| ciborium::from_reader::<V::Hash, _>(cb.as_slice()).is_ok()) {
        Err(p) => acc.fail(3000, section, format!("{} CBOR text document made deserialize panic: {p}", V::NAME), json!({"kind": "bin-doc", "key": "serde-panic", "variant": V::NAME, "format": "cbor", "doc": hex(&cb)})),
        Ok(true) => acc.fail(3001, section, format!("{} CBOR text string accepted by the compact deserializer", V::NAME), json!({"kind": "bin-doc", "key": "serde-bin", "variant": V::NAME, "format": "cbor", "doc": hex(&cb)})),
        Ok(false) => {}
    }
    acc.sample(1, || json!({"variant": V::NAME, "json_docs": docs.len(), "example": docs[10]}));
}

fn per_variant<V: SerdeVariant>(r: &mut Report, ctx: &Ctx)
where
    V::Hash: Serialize + DeserializeOwned,
{
    let name = format!("formats-{}", V::NAME);
    if ctx.want(&name) {
        r.section(
            &name,
            "a strict recording Serializer sees exactly one str item (the T1 text) in human-readable mode and exactly one bytes item (the binary form) in compact mode, no wrapper; real formats (serde_json, ciborium, postcard): for every one-byte-deviation value and every header window (constructible in this build) the JSON form is the quoted T1 hex string, the CBOR / postcard payload is a byte string carrying store_into_bytes, and de(ser(h)) == h; distinct by enumeration; non-trivial = all",
            &format!("{} + {} values x 3 formats", value_count::<V>(), header_window_count::<V>()),
            true,
            |s| {
                let n1 = value_count::<V>();
                let n2 = header_window_count::<V>();
                s.acc = par_for(n1 + n2, 256, |idx, acc| {
                    let bytes = if idx < n1 { value_by_index::<V>(idx) } else { header_window_by_index::<V>(idx - n1) };
                    if !constructible::<V>(&bytes) {
                        return;
                    }
                    acc.evals += 1;
                    acc.transitions += 8;
                    acc.nontrivial += 1;
                    match judge_formats::<V>(&bytes) {
                        Ok(()) => {
                            if idx % 4099 == 0 {
                                acc.outcomes.insert_bytes(&bytes);
                                acc.sample(idx, || json!({"variant": V::NAME, "value": hex(&bytes)}));
                            }
                        }
                        Err(e) => acc.fail(idx, &name, e, json!({"kind": "formats", "key": "serde-formats", "variant": V::NAME, "value": hex(&bytes)})),
                    }
                });
            },
        );
    }
    let name = format!("flipping-serializer-{}", V::NAME);
    if ctx.want(&name) {
        r.section(
            &name,
            "a safe but misbehaving Serializer whose is_human_readable() answer changes between calls (6 answer patterns), for every one-byte-deviation value: the one outcome that is a violation is a `&str` whose bytes are not UTF-8 (with feature 'unsafe' the text goes through from_utf8_unchecked); errors, clean panics and any well-formed str or bytes are accepted; non-trivial = all",
            &format!("{} values x 6 answer patterns", value_count::<V>()),
            true,
            |s| {
                let n1 = value_count::<V>();
                s.acc = par_for(n1, 256, |idx, acc| {
                    let bytes = value_by_index::<V>(idx);
                    if !constructible::<V>(&bytes) {
                        return;
                    }
                    acc.evals += 1;
                    acc.transitions += 6;
                    acc.nontrivial += 1;
                    match judge_flipping_serializer::<V>(&bytes) {
                        Ok(()) => {
                            if idx % 4099 == 0 {
                                acc.outcomes.insert_bytes(&bytes);
                                acc.sample(idx, || json!({"variant": V::NAME, "value": hex(&bytes)}));
                            }
                        }
                        Err(e) => acc.fail(idx, &name, e, json!({"kind": "flipping", "key": "serde-flipping-serializer", "variant": V::NAME, "value": hex(&bytes)})),
                    }
                });
            },
        );
    }
    let name = format!("events-{}", V::NAME);
    if ctx.want(&name) {
        let evs = events_for::<V>();
        r.section(
            &name,
            "scripted mock Deserializer: for is_human_readable in {true,false}, whichever deserialize_* method the impl asks for is answered with each visitor event in {str, borrowed_str, string, bytes, borrowed_bytes, byte_buf, u8, u64, i64, f64, bool, char, unit, none, some, seq, map, newtype} x payloads {canonical, lower-case, no prefix, length +-1, empty, bad digit in each field, 2x length, wrong prefix, checksum 49 / length code 170/255 in text and binary}; Ok <=> the matching parser of the same build accepts (text parser for str events in human-readable mode, binary parser for bytes events in compact mode), equal values; everything else is Err; never a panic; non-trivial = events that must be rejected",
            &format!("{} events x 2 modes", evs.len()),
            true,
            |s| {
                for (i, ev) in evs.iter().enumerate() {
                    for human in [true, false] {
                        s.acc.evals += 1;
                        s.acc.transitions += 1;
                        match judge_event::<V>(human, ev) {
                            Ok(c) => {
                                s.acc.outcomes.insert(c | (human as u64) << 8);
                                if c & 1 == 0 {
                                    s.acc.nontrivial += 1;
                                }
                                if i % 37 == 0 {
                                    s.acc.sample((i * 2) as u64, || json!({"variant": V::NAME, "human_readable": human, "event": ev.name(), "payload": ev.payload_json(), "accepted": c & 1 == 1}));
                                }
                            }
                            Err(e) => {
                                let key = if e.contains("panicked") { "serde-panic" } else { "serde-event" };
                                s.acc.fail((i * 2) as u64, &name, e, json!({"kind": "event", "key": key, "variant": V::NAME, "human": human, "event": ev.name(), "payload": ev.payload_json(), "index": i}));
                                return;
                            }
                        }
                    }
                }
            },
        );
    }
    let name = format!("documents-{}", V::NAME);
    if ctx.want(&name) {
        r.section(
            &name,
            "real documents: JSON of the wrong type / truncated / every text payload; postcard and CBOR byte strings of every binary payload (incl. wrong lengths and, in strict builds, invalid checksum / length code), truncated documents, a CBOR text string for the compact form: result equals the matching parser's verdict, never a panic; non-trivial = documents that must be rejected",
            "about 30 JSON + 22 binary documents",
            true,
            |s| judge_documents::<V>(&mut s.acc, &name),
        );
    }
}

pub fn run(r: &mut Report, ctx: &Ctx) {
    quiet_panics();
    per_variant::<VShort>(r, ctx);
    per_variant::<VNormal>(r, ctx);
    per_variant::<VNormalLC>(r, ctx);
    per_variant::<VLong>(r, ctx);
    per_variant::<VLongLC>(r, ctx);
}

fn replay_event<V: SerdeVariant>(human: bool, index: usize) -> Result<(), String>
where
    V::Hash: Serialize + DeserializeOwned,
{
    let evs = events_for::<V>();
    let ev = evs.get(index).ok_or("event index")?;
    println!("event {} payload {} human_readable={human}", ev.name(), ev.payload_json());
    judge_event::<V>(human, ev).map(|c| println!("outcome class {c}"))
}
fn replay_flipping<V: SerdeVariant>(b: &[u8]) -> Result<(), String>
where
    V::Hash: Serialize + DeserializeOwned,
{
    judge_flipping_serializer::<V>(b)
}

fn replay_formats<V: SerdeVariant>(b: &[u8]) -> Result<(), String>
where
    V::Hash: Serialize + DeserializeOwned,
{
    judge_formats::<V>(b)
}
fn replay_docs<V: SerdeVariant>() -> Result<(), String>
where
    V::Hash: Serialize + DeserializeOwned,
{
    let mut acc = Acc::default();
    judge_documents::<V>(&mut acc, "documents");
    match acc.viol {
        Some((_, v)) => Err(v.summary),
        Option::None => Ok(()),
    }
}

pub fn replay(case: &Value) -> Result<(), String> {
    quiet_panics();
    let v = case["variant"].as_str().ok_or("variant")?;
    match case["kind"].as_str().unwrap_or("") {
        "event" => {
            let human = case["human"].as_bool().ok_or("human")?;
            let index = case["index"].as_u64().ok_or("index")? as usize;
            with_variant!(v, replay_event(human, index))
        }
        "formats" => {
            let b = unhex(case["value"].as_str().ok_or("value")?);
            with_variant!(v, replay_formats(&b))
        }
        "flipping" => {
            let b = unhex(case["value"].as_str().ok_or("value")?);
            with_variant!(v, replay_flipping(&b))
        }
        "json-doc" | "bin-doc" => with_variant!(v, replay_docs()),
        k => Err(format!("unknown replay kind {k}")),
    }
}
