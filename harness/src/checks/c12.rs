//! C12 — stream and file helpers hash exactly the bytes the reader delivered.

use crate::checks::common::*;
use crate::readers::*;
use crate::report::*;
use crate::streams::Stream;
use crate::variant::*;
use crate::{with_variant, Ctx};
use serde_json::{json, Value};
use std::collections::HashMap;
use std::io::ErrorKind;
use std::os::unix::fs::OpenOptionsExt;
use std::sync::Mutex;
use tlsh::{GeneratorError, GeneratorOrIOError};

pub fn c12_alphabet() -> Vec<Ans> {
    vec![
        Ans::Deliver(1),
        Ans::Deliver(3),
        Ans::Deliver(4),
        Ans::Deliver(5),
        Ans::Deliver(4096),
        Ans::Deliver(BUF - 1),
        Ans::Interrupted,
        Ans::Hard(ErrorKind::PermissionDenied),
        Ans::Hard(ErrorKind::UnexpectedEof),
        Ans::Hard(ErrorKind::Other),
        Ans::Hard(ErrorKind::WouldBlock),
        Ans::Hard(ErrorKind::TimedOut),
        Ans::Hard(ErrorKind::InvalidData),
        Ans::Eof,
    ]
}

type Expect = Result<Vec<u8>, GeneratorError>;

/// hash_buf of the first `len` bytes of the stream (the delivered bytes are always a prefix).
fn expected_for<V: Variant>(stream: Stream, len: u64, cache: &Mutex<HashMap<(usize, u64), Expect>>) -> Expect {
    let vi = VARIANT_NAMES.iter().position(|n| *n == V::NAME).unwrap();
    if len > crate::refmodel::tables::MAX_LEN {
        // hash_buf of more than MAX bytes is the too-large error whatever the content (C11 decides that)
        return Err(GeneratorError::TooLargeInput);
    }
    if let Some(e) = cache.lock().unwrap().get(&(vi, len)) {
        return e.clone();
    }
    let data = stream.bytes(0, len as usize);
    let e = V::hash_buf(&data).map(|h| V::to_bytes(&h));
    cache.lock().unwrap().insert((vi, len), e.clone());
    e
}

/// Outcome classes: 0 = Ok hash, 1 = generator error, 2 = io error
pub fn judge_script<V: Variant>(stream: Stream, script: &Script, cache: &Mutex<HashMap<(usize, u64), Expect>>) -> Result<(u64, usize), String> {
    let mut rd = ScriptReader::new(stream, script.clone());
    let res = catch(|| V::hash_stream(&mut rd)).map_err(|p| format!("{} hash_stream_for panicked on script {:?}: {p}", V::NAME, script.to_json().to_string()))?;
    // Operational reading of the property ("hash exactly the bytes the reader delivered"): whatever the reader
    // handed out during the run, and the first hard error it actually reported. A helper that polls again after a
    // 0-byte read and is given more bytes or an error by a non-sticky reader still satisfies the statement; that
    // is recorded in the message only.
    let delivered = rd.pos;
    let after_eof = rd.pos - rd.eof_pos.unwrap_or(rd.pos);
    let consumed = rd.consumed;
    if rd.calls_after_eof > 0 {
        // reading again after EOF / after an error is not forbidden by the property; recorded only
    }
    match rd.first_hard {
        None => {
            // the helper must drive the reader to the end of the stream: a short read is not EOF
            if !rd.saw_eof && rd.pos < script.total {
                let max = crate::refmodel::tables::MAX_LEN;
                let pending_hard = script.deviations.iter().find(|(i, a)| *i >= rd.step && matches!(a, Ans::Hard(_)));
                if rd.pos <= max {
                    // the result still depends on the bytes that were not read
                    return Err(format!(
                        "{}: hash_stream stopped after {delivered} of {} bytes although the reader reported neither end of stream (a 0-byte read) nor an error",
                        V::NAME, script.total
                    ));
                } else if let Some((step, hard)) = pending_hard {
                    // past MAX the hash is decided (too large), but an error the reader still has to report must not be lost
                    return Err(format!(
                        "{}: hash_stream stopped polling the reader after {delivered} bytes; the hard error {} it reports at read call {step} is never returned",
                        V::NAME, hard.name()
                    ));
                }
            }
            let expect = expected_for::<V>(stream, delivered, cache);
            match (&res, &expect) {
                (Ok(h), Ok(b)) if V::to_bytes(h) == *b => Ok((0, consumed)),
                (Err(GeneratorOrIOError::GeneratorError(e)), Err(x)) if e == x => Ok((1, consumed)),
                _ => Err(format!(
                    "{}: reader delivered {delivered} bytes before its end of stream with no hard error ({} interruption(s)){}; hash_stream = {} but hash_buf of the delivered bytes = {}",
                    V::NAME, rd.interrupts,
                    if after_eof > 0 || rd.hard_after_eof.is_some() { format!(" [the helper kept reading after the 0-byte read: {after_eof} more bytes, error {:?}]", rd.hard_after_eof) } else { String::new() },
                    match &res { Ok(h) => format!("Ok({h})"), Err(e) => format!("Err({e:?})") },
                    match &expect { Ok(b) => format!("Ok({})", hex(b)), Err(e) => format!("Err({e:?})") }
                )),
            }
        }
        Some(kind) => match &res {
            Err(GeneratorOrIOError::IOError(e)) if e.kind() == kind => Ok((2, consumed)),
            other => Err(format!(
                "{}: reader reported hard error {kind:?} after {delivered} bytes; hash_stream = {}",
                V::NAME,
                match other { Ok(h) => format!("Ok({h})"), Err(e) => format!("Err({e:?})") }
            )),
        },
    }
}

fn run_scripts(r: &mut Report, name: &str, rule: &str, bound: &str, scripts: Vec<Script>, variants: &[usize], with_default_tlsh: bool) {
    let cache = Mutex::new(HashMap::new());
    r.section(name, rule, bound, true, |s| {
        let scripts = &scripts;
        let cache = &cache;
        let nv = variants.len() as u64;
        s.acc = par_for(scripts.len() as u64 * nv, 4, |idx, acc| {
            let v = variants[(idx % nv) as usize];
            let sc = &scripts[(idx / nv) as usize];
            acc.evals += 1;
            acc.transitions += 1;
            let res = with_variant!(v, judge_script(Stream::Mixed, sc, cache));
            match res {
                Ok((class, consumed)) => {
                    if consumed == sc.deviations.len() && !sc.deviations.is_empty() {
                        acc.nontrivial += 1;
                    }
                    acc.outcomes.insert(class | (sc.total << 8) | ((consumed as u64) << 4));
                    if idx % 211 == 0 {
                        acc.sample(idx, || json!({"variant": VARIANT_NAMES[v], "script": sc.to_json(), "outcome_class": class}));
                    }
                }
                Err(e) => acc.fail(idx, name, e, json!({"kind": "script", "key": script_key(sc), "variant": VARIANT_NAMES[v], "script": sc.to_json()})),
            }
            // hash_stream (default type) agrees with hash_stream_for::<Normal>
            if with_default_tlsh && v == 1 {
                let mut rd = ScriptReader::new(Stream::Mixed, sc.clone());
                let a = catch(|| tlsh::hash_stream(&mut rd).map(|h| h.to_string()).map_err(|e| format!("{e:?}")));
                let mut rd = ScriptReader::new(Stream::Mixed, sc.clone());
                let b = catch(|| VNormal::hash_stream(&mut rd).map(|h| h.to_string()).map_err(|e| format!("{e:?}")));
                acc.transitions += 1;
                if a != b {
                    acc.fail(idx, name, format!("hash_stream differs from hash_stream_for::<Tlsh> on script {}", sc.to_json()), json!({"kind": "script", "key": script_key(sc), "variant": "Normal", "script": sc.to_json()}));
                }
            }
        });
    });
}

/// A stable key naming the kind of environment answer involved (for known-findings matching).
pub fn script_key(sc: &Script) -> String {
    let mut kinds: Vec<String> = sc.deviations.iter().map(|(_, a)| a.name().split(':').next().unwrap().to_string()).collect();
    kinds.sort();
    kinds.dedup();
    format!("reader-{}", kinds.join("+"))
}

pub fn run(r: &mut Report, ctx: &Ctx) {
    quiet_panics();
    let quick = ctx.quick();
    let alphabet = c12_alphabet();
    let small_totals: Vec<u64> = vec![0, 9, 50, 600];
    let big_totals: Vec<u64> = vec![BUF as u64 - 1, BUF as u64, BUF as u64 + 1, 2 * BUF as u64 + 7];
    let all5 = [0usize, 1, 2, 3, 4];

    if ctx.want("scripts-small") {
        let maxd = if quick { 2 } else { 3 };
        let mut scripts = Vec::new();
        for &t in &small_totals {
            for d in 0..=maxd {
                scripts.extend(scripts_with(t, default_steps(t) + d + 1, &alphabet, d));
            }
        }
        run_scripts(
            r,
            "scripts-small",
            "reader scripts: default answer = fill the buffer until the content is exhausted then 0; deviations from {deliver 1/3/4/5/4096/BUF-1, Interrupted, 3 hard error kinds, premature 0} at any step; every script with at most d deviations, run to completion through hash_stream_for (all variants) and hash_stream; oracle: no hard error => result == hash_buf of exactly the delivered bytes (as Ok or the same GeneratorError); first hard error e => Err(IOError) of e's kind; non-trivial = scripts whose deviations were all consumed",
            &format!("totals {:?}, <= {maxd} deviations, 5 variants", small_totals),
            scripts,
            &all5,
            true,
        );
    }
    if ctx.want("error-payloads") {
        // what the reader's error CARRIES must not matter: the helper converts it with `?`, and a conversion that
        // inspects kind + payload (e.g. to "unwrap" one of the crate's own error types) would turn an I/O error into
        // something else
        const KINDS: [ErrorKind; 8] = [ErrorKind::Other, ErrorKind::InvalidData, ErrorKind::InvalidInput, ErrorKind::UnexpectedEof, ErrorKind::NotFound, ErrorKind::PermissionDenied, ErrorKind::OutOfMemory, ErrorKind::Unsupported];
        const PAYLOADS: [&str; 8] = ["none", "text", "generator-too-small", "generator-too-large", "generator-distribution", "parse-error", "generator-or-io", "nested-io"];
        const AFTER: [usize; 4] = [0, 5, 5000, 2 * BUF + 3];
        fn make_error(kind: ErrorKind, payload: &str) -> std::io::Error {
            use tlsh::{GeneratorError as G, ParseError as P};
            match payload {
                "none" => kind.into(),
                "text" => std::io::Error::new(kind, "scripted"),
                "generator-too-small" => std::io::Error::new(kind, G::TooSmallInput),
                "generator-too-large" => std::io::Error::new(kind, G::TooLargeInput),
                "generator-distribution" => std::io::Error::new(kind, G::BucketsAreHalfEmpty),
                "parse-error" => std::io::Error::new(kind, P::InvalidCharacter),
                "generator-or-io" => std::io::Error::new(kind, GeneratorOrIOError::GeneratorError(G::TooSmallInput)),
                _ => std::io::Error::new(kind, std::io::Error::new(ErrorKind::Interrupted, "inner")),
            }
        }
        struct FailAfter {
            after: usize,
            pos: usize,
            kind: ErrorKind,
            payload: &'static str,
        }
        impl std::io::Read for FailAfter {
            fn read(&mut self, buf: &mut [u8]) -> std::io::Result<usize> {
                if self.pos >= self.after {
                    return Err(make_error(self.kind, self.payload));
                }
                let n = buf.len().min(self.after - self.pos).min(4096 + 7);
                Stream::Mixed.fill(self.pos as u64, &mut buf[..n]);
                self.pos += n;
                Ok(n)
            }
        }
        let total = (KINDS.len() * PAYLOADS.len() * AFTER.len() * 5) as u64;
        r.section(
            "error-payloads",
            "a reader that delivers k bytes (k in {0, 5, 5000, 2 MiB + 3}) in short reads and then fails with every combination of 8 error kinds and 8 payloads (none, text, each of the crate's own error types incl. GeneratorError and GeneratorOrIOError, a nested io::Error whose inner kind is Interrupted): the result must be Err(IOError(e)) with e's kind, never a hash and never a generator error; non-trivial = all",
            &format!("{} kinds x {} payloads x {} positions x 5 variants", KINDS.len(), PAYLOADS.len(), AFTER.len()),
            true,
            |s| {
                s.acc = par_for(total, 4, |idx, acc| {
                    let v = (idx % 5) as usize;
                    let after = AFTER[((idx / 5) % 4) as usize];
                    let payload = PAYLOADS[((idx / 20) % 8) as usize];
                    let kind = KINDS[(idx / 160) as usize];
                    acc.evals += 1;
                    acc.transitions += 1;
                    acc.nontrivial += 1;
                    fn go<V: Variant>(after: usize, kind: ErrorKind, payload: &'static str) -> Result<(), String> {
                        let mut rd = FailAfter { after, pos: 0, kind, payload };
                        let res = catch(|| V::hash_stream(&mut rd)).map_err(|p| format!("{} hash_stream panicked: {p}", V::NAME))?;
                        match res {
                            Err(GeneratorOrIOError::IOError(e)) if e.kind() == kind => Ok(()),
                            other => Err(format!(
                                "{}: reader failed with {kind:?} (payload {payload}) after {after} bytes; hash_stream = {}",
                                V::NAME,
                                match other { Ok(h) => format!("Ok({h})"), Err(e) => format!("Err({e:?})") }
                            )),
                        }
                    }
                    match with_variant!(v, go(after, kind, payload)) {
                        Ok(()) => {
                            acc.outcomes.insert(idx / 20);
                            if idx % 211 == 0 {
                                acc.sample(idx, || json!({"variant": VARIANT_NAMES[v], "after": after, "kind": format!("{kind:?}"), "payload": payload}));
                            }
                        }
                        Err(e) => acc.fail(idx, "error-payloads", e, json!({"kind": "error-payload", "key": format!("error-payload-{kind:?}-{payload}"), "variant": VARIANT_NAMES[v], "after": after, "error_kind": format!("{kind:?}"), "payload": payload})),
                    }
                });
            },
        );
    }
    if ctx.want("scripts-big") {
        let maxd = if quick { 1 } else { 2 };
        let variants: Vec<usize> = if quick { vec![1, 0] } else { all5.to_vec() };
        let mut scripts = Vec::new();
        for &t in &big_totals {
            for d in 0..=maxd {
                scripts.extend(scripts_with(t, default_steps(t) + d + 1, &alphabet, d));
            }
        }
        run_scripts(
            r,
            "scripts-big",
            "as scripts-small for streams around and beyond the internal 1 MiB buffer (BUF-1, BUF, BUF+1, 2*BUF+7 bytes)",
            &format!("totals {:?}, <= {maxd} deviations, variants {:?}", big_totals, variants),
            scripts,
            &variants,
            true,
        );
    }
    if ctx.want("interrupt-storms") {
        // many interruptions in a row, and interruptions interleaved with short reads
        let mut scripts = Vec::new();
        for &t in &[600u64, BUF as u64 + 1] {
            for k in [2usize, 5, 17, 129, 1000] {
                scripts.push(Script { total: t, deviations: (0..k).map(|i| (i, Ans::Interrupted)).collect() });
                scripts.push(Script { total: t, deviations: (0..2 * k).map(|i| (i, if i % 2 == 0 { Ans::Interrupted } else { Ans::Deliver(3) })).collect() });
                scripts.push(Script { total: t, deviations: (0..k).map(|i| (i + 1, Ans::Interrupted)).chain(std::iter::once((k + 1, Ans::Hard(ErrorKind::Other)))).collect() });
            }
        }
        run_scripts(
            r,
            "interrupt-storms",
            "longer scripts: k consecutive interruptions, interruptions alternating with 3-byte reads, interruptions followed by a hard error; same oracle; non-trivial = all consumed",
            "2 totals x 5 counts (2, 5, 17, 129, 1000) x 3 shapes x 5 variants",
            scripts,
            &all5,
            true,
        );
    }
    if ctx.want("huge-stream") {
        // streams longer than the 4,224,281,216-byte maximum: an error reported after that point is still an error
        let max = crate::refmodel::tables::MAX_LEN;
        let mut scripts = Vec::new();
        let steps = |t: u64| ((t as usize + BUF - 1) / BUF) as usize;
        let t = max + 1 + 5 * BUF as u64 + 5;
        scripts.push(Script { total: t, deviations: vec![(steps(t), Ans::Hard(ErrorKind::Other))] });
        if !quick {
            scripts.push(Script { total: t, deviations: vec![] });
            scripts.push(Script { total: max + 2, deviations: vec![(steps(max + 2), Ans::Hard(ErrorKind::PermissionDenied))] });
            scripts.push(Script { total: max, deviations: vec![(steps(max), Ans::Hard(ErrorKind::TimedOut))] });
            scripts.push(Script { total: t, deviations: vec![(steps(max) + 2, Ans::Interrupted), (steps(t), Ans::Hard(ErrorKind::WouldBlock))] });
            scripts.push(Script { total: t, deviations: vec![(steps(max) - 1, Ans::Deliver(3)), (steps(t) + 1, Ans::Hard(ErrorKind::Other))] });
        }
        let cache = Mutex::new(HashMap::new());
        r.section(
            "huge-stream",
            "streams longer than the maximum input length, delivered in full 1 MiB reads (zeros): a hard error reported after more than MAX bytes were delivered is still Err(IOError) of that kind; without an error the result is the too-large generator error; non-trivial = all",
            &format!("{} scripts of about 4.2 GB each, variant Normal{}", scripts.len(), if quick { "" } else { " and Short" }),
            true,
            |s| {
                let scripts = &scripts;
                let cache = &cache;
                let nv: u64 = if quick { 1 } else { 2 };
                s.acc = par_for(scripts.len() as u64 * nv, 1, |idx, acc| {
                    let sc = &scripts[(idx / nv) as usize];
                    let v = [1usize, 0][(idx % nv) as usize];
                    acc.evals += 1;
                    acc.transitions += 1;
                    acc.nontrivial += 1;
                    let res = with_variant!(v, judge_script(Stream::Zeros, sc, cache));
                    match res {
                        Ok((class, _)) => {
                            acc.outcomes.insert(class | (idx << 4));
                            acc.sample(idx, || json!({"variant": VARIANT_NAMES[v], "script": sc.to_json(), "outcome_class": class}));
                        }
                        Err(e) => acc.fail(idx, "huge-stream", e, json!({"kind": "script", "key": script_key(sc), "variant": VARIANT_NAMES[v], "script": sc.to_json(), "stream": "S2-zeros"})),
                    }
                });
            },
        );
    }
    if ctx.want("files") {
        r.section(
            "files",
            "real files of sizes 0, 1, 384, BUF-1, BUF, BUF+1, 2*BUF, 3*BUF+5, 4*BUF in a run-private scratch directory: hash_file_for / hash_file == hash_buf of the file contents (Ok or the same GeneratorError); a FIFO fed by a writer thread and procfs files (metadata length 0, content present) hash like their contents; a missing path is IOError(NotFound); a directory path is an IOError; non-trivial = all",
            "9 sizes x 5 variants + missing path + directory",
            true,
            |s| {
                let dir = ctx.scratch.join(format!("c12-{}", std::process::id()));
                let _ = std::fs::create_dir_all(&dir);
                let sizes = [0usize, 1, 384, BUF - 1, BUF, BUF + 1, 2 * BUF, 3 * BUF + 5, 4 * BUF];
                for (i, &sz) in sizes.iter().enumerate() {
                    let data = Stream::Mixed.bytes(0, sz);
                    let path = dir.join(format!("f{i}.bin"));
                    if let Err(e) = std::fs::write(&path, &data) {
                        s.caps.push(format!("MACHINERY: cannot write scratch file: {e}"));
                        continue;
                    }
                    fn go<V: Variant>(path: &std::path::Path, data: &[u8]) -> Result<u64, String> {
                        let got = catch(|| V::hash_file(path)).map_err(|p| format!("hash_file panicked: {p}"))?;
                        let expect = V::hash_buf(data);
                        match (&got, &expect) {
                            (Ok(h), Ok(e)) if h == e => Ok(0),
                            (Err(GeneratorOrIOError::GeneratorError(a)), Err(b)) if a == b => Ok(1),
                            _ => Err(format!("{}: hash_file of a {}-byte file = {:?} but hash_buf(contents) = {:?}", V::NAME, data.len(), got.map(|h| h.to_string()), expect.map(|h| h.to_string()))),
                        }
                    }
                    for v in 0..5usize {
                        s.acc.evals += 1;
                        s.acc.transitions += 2;
                        s.acc.nontrivial += 1;
                        let res = with_variant!(v, go(&path, &data));
                        match res {
                            Ok(c) => {
                                s.acc.outcomes.insert(c | (sz as u64) << 4);
                                s.acc.sample((i * 5 + v) as u64, || json!({"variant": VARIANT_NAMES[v], "file_size": sz, "outcome_class": c}));
                            }
                            Err(e) => {
                                s.acc.fail((i * 5 + v) as u64, "files", e, json!({"kind": "file", "key": "file", "variant": VARIANT_NAMES[v], "size": sz}));
                            }
                        }
                    }
                    {
                        let a = tlsh::hash_file(&path).map(|h| h.to_string()).map_err(|e| format!("{e:?}"));
                        let b = VNormal::hash_file(&path).map(|h| h.to_string()).map_err(|e| format!("{e:?}"));
                        if a != b {
                            s.acc.fail(900, "files", "hash_file differs from hash_file_for::<Tlsh>".into(), json!({"kind": "file", "key": "file", "variant": "Normal", "size": sz}));
                        }
                    }
                    let _ = std::fs::remove_file(&path);
                }
                // paths whose metadata does not announce their content: a FIFO fed by a writer thread
                // (st_size == 0, short reads) and a procfs file (st_size == 0)
                for (fi, &sz) in [100_000usize, BUF + 5].iter().enumerate() {
                    let path = dir.join(format!("fifo{fi}"));
                    let cpath = std::ffi::CString::new(path.to_string_lossy().as_bytes()).unwrap();
                    let rc = unsafe { libc::mkfifo(cpath.as_ptr(), 0o600) };
                    if rc != 0 {
                        s.caps.push("MACHINERY: mkfifo failed; FIFO cases skipped".into());
                        continue;
                    }
                    let data = Stream::Mixed.bytes(0, sz);
                    for v in [1usize, 0] {
                        let wpath = path.clone();
                        let wdata = data.clone();
                        let writer = std::thread::spawn(move || {
                            use std::io::Write;
                            if let Ok(mut f) = std::fs::OpenOptions::new().write(true).open(&wpath) {
                                for chunk in wdata.chunks(4099) {
                                    if f.write_all(chunk).is_err() {
                                        break;
                                    }
                                }
                            }
                        });
                        fn go<V: Variant>(path: &std::path::Path, data: &[u8]) -> Result<u64, String> {
                            let got = catch(|| V::hash_file(path)).map_err(|p| format!("hash_file panicked: {p}"))?;
                            let expect = V::hash_buf(data);
                            match (&got, &expect) {
                                (Ok(h), Ok(e)) if h == e => Ok(0),
                                (Err(GeneratorOrIOError::GeneratorError(a)), Err(b)) if a == b => Ok(1),
                                _ => Err(format!("{}: hash_file of a FIFO delivering {} bytes = {:?} but hash_buf(contents) = {:?}", V::NAME, data.len(), got.map(|h| h.to_string()), expect.map(|h| h.to_string()))),
                            }
                        }
                        s.acc.evals += 1;
                        s.acc.transitions += 2;
                        s.acc.nontrivial += 1;
                        let res = with_variant!(v, go(&path, &data));
                        // unblock the writer if the reader never opened / stopped early, then join
                        let _ = std::fs::OpenOptions::new().read(true).custom_flags_nonblock().open(&path);
                        let _ = writer.join();
                        match res {
                            Ok(c) => {
                                s.acc.outcomes.insert(c | 0x100 | (sz as u64) << 12);
                                s.acc.sample(2000 + (fi * 2 + v) as u64, || json!({"variant": VARIANT_NAMES[v], "fifo_bytes": sz, "outcome_class": c}));
                            }
                            Err(e) => s.acc.fail(2000 + (fi * 2 + v) as u64, "files", e, json!({"kind": "file", "key": "file-fifo", "variant": VARIANT_NAMES[v], "size": sz})),
                        }
                    }
                    let _ = std::fs::remove_file(&path);
                }
                for pseudo in ["/proc/filesystems", "/proc/version", "/proc/sys/kernel/ostype"] {
                    let p = std::path::Path::new(pseudo);
                    if let (Ok(a), Ok(b)) = (std::fs::read(p), std::fs::read(p)) {
                        if a != b || a.is_empty() {
                            continue;
                        }
                        s.acc.evals += 1;
                        s.acc.transitions += 2;
                        s.acc.nontrivial += 1;
                        let got = catch(|| VShort::hash_file(p).map(|h| h.to_string()).map_err(|e| format!("{e:?}")));
                        let expect = VShort::hash_buf(&a).map(|h| h.to_string()).map_err(|e| format!("GeneratorError({e:?})"));
                        if got.as_ref().ok() != Some(&expect) {
                            s.acc.fail(3000, "files", format!("Short: hash_file({pseudo}) = {got:?} but hash_buf of its {} bytes = {expect:?}", a.len()), json!({"kind": "file", "key": "file-pseudo", "variant": "Short", "size": a.len()}));
                        } else {
                            s.acc.outcomes.insert(0x200 + a.len() as u64);
                        }
                    }
                }
                // missing path and directory
                s.acc.evals += 2;
                s.acc.transitions += 2;
                s.acc.nontrivial += 2;
                match VNormal::hash_file(&dir.join("does-not-exist")) {
                    Err(GeneratorOrIOError::IOError(e)) if e.kind() == ErrorKind::NotFound => {}
                    other => s.acc.fail(1000, "files", format!("hash_file of a missing path = {:?}", other.map(|h| h.to_string())), json!({"kind": "file", "key": "file-missing", "variant": "Normal", "size": -1})),
                }
                match VNormal::hash_file(&dir) {
                    Err(GeneratorOrIOError::IOError(_)) => {}
                    other => s.acc.fail(1001, "files", format!("hash_file of a directory = {:?}", other.map(|h| h.to_string())), json!({"kind": "file", "key": "file-directory", "variant": "Normal", "size": -2})),
                }
                let _ = std::fs::remove_dir_all(&dir);
            },
        );
    }
    crate::seq::section(r, ctx, "stream");
}

fn rs<V: Variant>(sc: &Script, stream: Stream) -> Result<(), String> {
    let cache = Mutex::new(HashMap::new());
    judge_script::<V>(stream, sc, &cache).map(|(c, _)| println!("script outcome class {c} agrees with the oracle"))
}

pub fn replay(case: &Value) -> Result<(), String> {
    quiet_panics();
    match case["kind"].as_str().unwrap_or("") {
        "script" => {
            let v = case["variant"].as_str().ok_or("variant")?;
            let sc = Script::from_json(&case["script"]).ok_or("script")?;
            println!("script: {}", sc.to_json());
            let stream = case["stream"].as_str().and_then(Stream::from_name).unwrap_or(Stream::Mixed);
            with_variant!(v, rs(&sc, stream))
        }
        k => Err(format!("replay kind {k}: re-run the check")),
    }
}

trait NonBlockOpen {
    fn custom_flags_nonblock(&mut self) -> &mut Self;
}
impl NonBlockOpen for std::fs::OpenOptions {
    fn custom_flags_nonblock(&mut self) -> &mut Self {
        self.custom_flags(libc::O_NONBLOCK)
    }
}
