//! Helpers shared by the checks.

use crate::refmodel::*;
use crate::variant::*;
use serde_json::{json, Value};
use tlsh::GeneratorType;

/// All permissive flags on (finalize only fails for TooLarge).
pub fn permissive(pure_int: bool) -> Opts {
    Opts { conservative: false, pure_int, allow_small: true, allow_half: true, allow_quarter: true }
}

pub fn opts_json(o: &Opts) -> Value {
    json!({"conservative": o.conservative, "pure_int": o.pure_int, "allow_small": o.allow_small,
           "allow_half": o.allow_half, "allow_quarter": o.allow_quarter})
}

pub fn opts_from_json(v: &Value) -> Opts {
    Opts {
        conservative: v["conservative"].as_bool().unwrap_or(false),
        pure_int: v["pure_int"].as_bool().unwrap_or(false),
        allow_small: v["allow_small"].as_bool().unwrap_or(false),
        allow_half: v["allow_half"].as_bool().unwrap_or(false),
        allow_quarter: v["allow_quarter"].as_bool().unwrap_or(false),
    }
}

/// Runs `f` catching panics; returns the panic message on panic.
pub fn catch<T>(f: impl FnOnce() -> T) -> Result<T, String> {
    match std::panic::catch_unwind(std::panic::AssertUnwindSafe(f)) {
        Ok(v) => Ok(v),
        Err(p) => Err(panic_message(&p)),
    }
}

pub fn panic_message(p: &Box<dyn std::any::Any + Send>) -> String {
    if let Some(s) = p.downcast_ref::<&str>() {
        s.to_string()
    } else if let Some(s) = p.downcast_ref::<String>() {
        s.clone()
    } else {
        "<non-string panic>".into()
    }
}

/// Set as soon as any thread panics inside the harness's own code (see `last_panic_in_harness`).
static HARNESS_PANICKED: std::sync::atomic::AtomicBool = std::sync::atomic::AtomicBool::new(false);

thread_local! {
    static LAST_PANIC_FILE: std::cell::RefCell<String> = const { std::cell::RefCell::new(String::new()) };
}

/// Source file of the last panic raised on this thread (recorded by the hook `quiet_panics` installs).
pub fn last_panic_file() -> String {
    LAST_PANIC_FILE.with(|f| f.borrow().clone())
}

/// Whether the last panic on this thread was raised by the harness's own code (its files are compiled with
/// crate-relative paths, `src/...`; fast-tlsh and the standard library have absolute paths). Such a panic is a
/// defect of the machinery and must never be reported as a verdict about the code under test.
pub fn last_panic_in_harness() -> bool {
    let f = last_panic_file();
    f.starts_with("src/") || f.starts_with("harness/src/") || HARNESS_PANICKED.load(std::sync::atomic::Ordering::SeqCst)
}

/// Silences the default panic printer (panics are caught and classified) and records where each panic came from.
pub fn quiet_panics() {
    let loud = std::env::var_os("VERIF_LOUD_PANICS").is_some();
    let default_hook = std::panic::take_hook();
    std::panic::set_hook(Box::new(move |info| {
        let file = info.location().map(|l| l.file().to_string()).unwrap_or_default();
        if file.starts_with("src/") || file.starts_with("harness/src/") {
            // a panic that started in the harness (it may be re-raised on another thread by a join)
            HARNESS_PANICKED.store(true, std::sync::atomic::Ordering::SeqCst);
            eprintln!("MACHINERY ERROR: panic in the harness's own code at {}", info.location().map(|l| l.to_string()).unwrap_or_default());
        }
        LAST_PANIC_FILE.with(|f| *f.borrow_mut() = file);
        if loud {
            default_hook(info);
        }
    }));
}

/// Compares all 32 finalizations of a real generator with the reference.
/// Returns the first disagreement as text.
pub fn compare_all_opts<V: Variant>(g: &V::Gen, r: &RefGen) -> Result<[Outcome; 32], String> {
    let mut outs: [Outcome; 32] = std::array::from_fn(|_| Err(RefErr::TooLarge));
    for o in Opts::all() {
        let real = catch(|| real_finalize::<V>(g, &o)).map_err(|p| format!("finalize({}) panicked: {p}", o.describe()))?;
        let expect = ref_outcome(r, &o);
        if real != expect {
            return Err(format!(
                "finalize({}) = {} but reference = {}",
                o.describe(),
                outcome_str(&real),
                outcome_str(&expect)
            ));
        }
        outs[o.index()] = real;
    }
    Ok(outs)
}

/// Fingerprint of an outcome vector.
pub fn outcomes_fp(outs: &[Outcome]) -> u64 {
    let mut bytes = Vec::new();
    for o in outs {
        match o {
            Ok(b) => {
                bytes.push(0);
                bytes.extend_from_slice(b);
            }
            Err(e) => {
                bytes.push(1 + *e as u8);
            }
        }
    }
    crate::report::fnv(&bytes)
}

pub fn any_ok(outs: &[Outcome]) -> bool {
    outs.iter().any(|o| o.is_ok())
}

/// Feeds `data` in one call to a fresh generator.
pub fn fresh_fed<V: Variant>(data: &[u8]) -> V::Gen {
    let mut g = V::new_gen();
    g.update(data);
    g
}

pub fn ref_fed<V: Variant>(data: &[u8]) -> RefGen {
    let mut r = V::ref_gen();
    r.feed_all(data);
    r
}

#[cfg(fast_tlsh_verif)]
pub mod hooked {
    use super::*;
    use tlsh::verif::GeneratorParts;

    /// Builds generator parts from a reference generator state.
    pub fn parts_from_ref(r: &RefGen) -> GeneratorParts {
        let n = r.n;
        let (len, tail_len, tail) = if n >= 4 {
            // `len` saturates at u32::MAX - 3 in the real generator
            let l = (n - 4).min((u32::MAX - 3) as u64) as u32;
            (l, 4u32, r.last4)
        } else {
            let mut t = [0u8; 4];
            t[..n as usize].copy_from_slice(&r.last4[..n as usize]);
            (0u32, n as u32, t)
        };
        GeneratorParts { buckets: r.buckets, len, checksum: r.cksum, tail, tail_len }
    }

    /// Builds a reference generator state from (real) generator parts.
    pub fn ref_from_parts<V: Variant>(p: &GeneratorParts) -> RefGen {
        let mut r = V::ref_gen();
        r.buckets = p.buckets;
        r.cksum = p.checksum;
        for i in V::CK..3 {
            r.cksum[i] = 0;
        }
        r.last4 = p.tail;
        r.n = p.len as u64 + p.tail_len as u64;
        r
    }

    /// Effective comparison of real parts with a reference generator:
    /// only the buckets the variant stores, the checksum bytes it has.
    pub fn parts_match_ref<V: Variant>(p: &GeneratorParts, r: &RefGen) -> Result<(), String> {
        let phys = tlsh::verif::physical_buckets(V::NB);
        // With 256 physical buckets every index is counted; otherwise only the effective ones.
        for i in 0..phys {
            if p.buckets[i] != r.buckets[i] {
                return Err(format!("bucket[{i}] = {} but reference = {}", p.buckets[i], r.buckets[i]));
            }
        }
        if p.checksum[..V::CK] != r.cksum[..V::CK] {
            return Err(format!("checksum = {:02x?} but reference = {:02x?}", &p.checksum[..V::CK], &r.cksum[..V::CK]));
        }
        let n = p.len as u64 + p.tail_len as u64;
        if n != r.n.min(u32::MAX as u64 + 1) && !(r.n > u32::MAX as u64 && n == u32::MAX as u64 + 1) {
            return Err(format!("len+tail_len = {n} but reference n = {}", r.n));
        }
        let k = p.tail_len as usize;
        if k < 4 {
            if p.tail[..k] != r.last4[..k] {
                return Err(format!("tail = {:02x?} but reference = {:02x?}", &p.tail[..k], &r.last4[..k]));
            }
        } else if p.tail != r.last4 && r.n <= u32::MAX as u64 {
            return Err(format!("tail = {:02x?} but reference = {:02x?}", p.tail, r.last4));
        }
        Ok(())
    }

    pub fn parts_json(p: &GeneratorParts) -> Value {
        // run-length encode buckets
        let mut runs: Vec<Value> = Vec::new();
        let mut i = 0;
        while i < 256 {
            let mut j = i;
            while j < 256 && p.buckets[j] == p.buckets[i] {
                j += 1;
            }
            runs.push(json!([j - i, p.buckets[i]]));
            i = j;
        }
        json!({"buckets_rle": runs, "len": p.len, "checksum": hex(&p.checksum), "tail": hex(&p.tail), "tail_len": p.tail_len})
    }

    pub fn parts_from_json(v: &Value) -> GeneratorParts {
        let mut buckets = [0u32; 256];
        let mut i = 0usize;
        for run in v["buckets_rle"].as_array().expect("buckets_rle") {
            let cnt = run[0].as_u64().unwrap() as usize;
            let val = run[1].as_u64().unwrap() as u32;
            for _ in 0..cnt {
                buckets[i] = val;
                i += 1;
            }
        }
        let ck = unhex(v["checksum"].as_str().unwrap());
        let tail = unhex(v["tail"].as_str().unwrap());
        GeneratorParts {
            buckets,
            len: v["len"].as_u64().unwrap() as u32,
            checksum: [ck[0], ck[1], ck[2]],
            tail: [tail[0], tail[1], tail[2], tail[3]],
            tail_len: v["tail_len"].as_u64().unwrap() as u32,
        }
    }
}
