pub mod c01;
pub mod c09;
pub mod common;
