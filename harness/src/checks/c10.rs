//! C10 — published length limits are enforced; permissive options only widen acceptance.

#[cfg(fast_tlsh_verif)]
use crate::checks::c01::{compositions, place_buckets, VALUE_ALPHABETS};
use crate::checks::c01::{short_string, short_string_count};
use crate::checks::common::*;
use crate::refmodel::tables::{MAX_LEN, TOPVAL};
use crate::refmodel::*;
use crate::report::*;
use crate::streams::Stream;
use crate::variant::*;
use crate::{with_variant, Ctx};
use serde_json::{json, Value};
use tlsh::length::{DataLengthProcessingMode, DataLengthValidity};
use tlsh::GeneratorType;

/// All 32 real outcomes of a generator (no reference involved).
pub fn real_outcomes<V: Variant>(g: &V::Gen) -> Result<[Outcome; 32], String> {
    let mut outs: [Outcome; 32] = std::array::from_fn(|_| Err(RefErr::TooLarge));
    for o in Opts::all() {
        outs[o.index()] = catch(|| real_finalize::<V>(g, &o)).map_err(|p| format!("finalize({}) panicked: {p}", o.describe()))?;
    }
    Ok(outs)
}

/// Lattice law on the 32 outcomes + the published length classification for n.
pub fn judge_lattice<V: Variant>(outs: &[Outcome; 32], n: Option<u32>) -> Result<(), String> {
    for a in Opts::all() {
        if let Ok(h) = &outs[a.index()] {
            for b in Opts::all() {
                if a.le(&b) && outs[b.index()].as_ref() != Ok(h) {
                    return Err(format!(
                        "{}: finalize({}) = Ok({}) but the more permissive finalize({}) = {}",
                        V::NAME, a.describe(), hex(h), b.describe(), outcome_str(&outs[b.index()])
                    ));
                }
            }
        }
        // QUARTER alone behaves as QUARTER|HALF
        if a.allow_quarter && !a.allow_half {
            let b = Opts { allow_half: true, ..a };
            if outs[a.index()] != outs[b.index()] {
                return Err(format!("{}: finalize({}) = {} differs from finalize({}) = {}", V::NAME, a.describe(), outcome_str(&outs[a.index()]), b.describe(), outcome_str(&outs[b.index()])));
            }
        }
    }
    // length error <=> published classification
    let validity = match n {
        Some(n) => V::validity(n),
        None => DataLengthValidity::TooLarge,
    };
    for o in Opts::all() {
        let mode = if o.conservative { DataLengthProcessingMode::Conservative } else { DataLengthProcessingMode::Optimistic };
        let too_large = validity == DataLengthValidity::TooLarge;
        let expect_len_err = validity.is_err_on(mode) && !(o.allow_small && !too_large);
        let got = &outs[o.index()];
        let got_len_err = matches!(got, Err(RefErr::TooLarge) | Err(RefErr::TooSmall));
        if expect_len_err != got_len_err {
            return Err(format!("{}: n = {n:?} classified {validity:?}; finalize({}) = {} but a length error is {}expected", V::NAME, o.describe(), outcome_str(got), if expect_len_err { "" } else { "not " }));
        }
        if got_len_err {
            let want = if too_large { RefErr::TooLarge } else { RefErr::TooSmall };
            if *got != Err(want) {
                return Err(format!("{}: n = {n:?} classified {validity:?}; finalize({}) = {} expected Err({want:?})", V::NAME, o.describe(), outcome_str(got)));
            }
        }
    }
    Ok(())
}

fn judge_gen<V: Variant>(g: &V::Gen) -> Result<u64, String> {
    let outs = real_outcomes::<V>(g)?;
    judge_lattice::<V>(&outs, g.processed_len())?;
    Ok(outcomes_fp(&outs))
}

fn judge_data<V: Variant>(data: &[u8]) -> Result<u64, String> {
    judge_gen::<V>(&fresh_fed::<V>(data))
}

fn judge_prefixes<V: Variant>(st: Stream, top: u64, acc: &mut Acc, key: u64) {
    let mut g = V::new_gen();
    for n in 0..=top {
        acc.evals += 1;
        acc.transitions += 32;
        match judge_gen::<V>(&g) {
            Ok(fp) => {
                acc.outcomes.insert(fp);
                acc.nontrivial += 1;
                if n == 49 || n == 128 {
                    acc.sample(key + n, || json!({"variant": V::NAME, "stream": st.name(), "n": n}));
                }
            }
            Err(e) => {
                acc.fail(key + n, "lattice-prefix", e, json!({"kind": "prefix", "variant": V::NAME, "stream": st.name(), "n": n}));
                return;
            }
        }
        g.update(&[st.byte(n)]);
    }
}

fn validity_of(nb: usize, n: u32) -> DataLengthValidity {
    match nb {
        48 => VShort::validity(n),
        128 => VNormal::validity(n),
        _ => VLong::validity(n),
    }
}

#[cfg(fast_tlsh_verif)]
fn judge_injected_len<V: Variant>(n: u32, weak: bool) -> Result<u64, String> {
    let mut p = tlsh::verif::GeneratorParts { buckets: [0; 256], len: 0, checksum: [0; 3], tail: [1, 2, 3, 4], tail_len: 0 };
    for i in 0..256 {
        p.buckets[i] = if weak { (i % 5 == 0) as u32 } else { (i as u32 % 7) + 1 };
    }
    if n >= 4 {
        p.len = n - 4;
        p.tail_len = 4;
    } else {
        p.tail_len = n;
    }
    judge_gen::<V>(&V::gen_from_parts(&p))
}

pub fn run(r: &mut Report, ctx: &Ctx) {
    quiet_panics();
    let quick = ctx.quick();
    if ctx.want("validity-all-n") {
        r.section(
            "validity-all-n",
            "DataLengthValidity::new::<N>(n) for every u32 n and the three bucket counts equals the reference classification (MIN 10/50/50, MIN_CONSERVATIVE 10/128/128, MAX 4224281216); distinct by enumeration; non-trivial = n within +-2 of a class boundary",
            "n in 0..2^32 x 3 bucket counts (complete domain)",
            true,
            |s| {
                const BLOCK: u64 = 1 << 18;
                s.acc = par_for((1u64 << 32) / BLOCK * 3, 1, |idx, acc| {
                    let nb = [48usize, 128, 256][(idx % 3) as usize];
                    let kind = Kind::from_nb(nb);
                    let b = idx / 3;
                    for l in b * BLOCK..(b + 1) * BLOCK {
                        let real = map_validity(validity_of(nb, l as u32));
                        let expect = ref_validity(kind, l);
                        if real != expect {
                            acc.fail(l * 3 + idx % 3, "validity-all-n", format!("DataLengthValidity::new::<{nb}>({l}) = {real:?} but reference = {expect:?}"), json!({"kind": "validity", "nb": nb, "n": l}));
                            return;
                        }
                        let near = l <= 131 || (l + 2 >= MAX_LEN && l <= MAX_LEN + 2);
                        if near {
                            acc.nontrivial += 1;
                            acc.outcomes.insert(real as u64 | (nb as u64) << 8);
                            acc.sample(idx, || json!({"nb": nb, "n": l, "class": format!("{real:?}")}));
                        }
                    }
                    acc.evals += BLOCK;
                    acc.transitions += BLOCK;
                });
            },
        );
    }
    if ctx.want("truth-tables") {
        r.section(
            "truth-tables",
            "is_err / is_err_on truth tables of the four validity classes x two modes; generator constants MIN/MIN_CONSERVATIVE/MAX of every variant equal the classification's boundaries (validity(MIN-1) = TooSmall, validity(MIN) != TooSmall, ...); non-trivial = all",
            "4 classes x 2 modes + 5 variants x 3 constants",
            true,
            |s| {
                use DataLengthValidity::*;
                let table = [(TooSmall, true, true, true), (ValidWhenOptimistic, false, false, true), (Valid, false, false, false), (TooLarge, true, true, true)];
                for (v, is_err, opt, cons) in table {
                    s.acc.evals += 1;
                    s.acc.transitions += 3;
                    s.acc.nontrivial += 1;
                    s.acc.outcomes.insert(v as u64);
                    if v.is_err() != is_err || v.is_err_on(DataLengthProcessingMode::Optimistic) != opt || v.is_err_on(DataLengthProcessingMode::Conservative) != cons {
                        s.acc.fail(v as u64, "truth-tables", format!("{v:?}: is_err={} is_err_on(Optimistic)={} is_err_on(Conservative)={}", v.is_err(), v.is_err_on(DataLengthProcessingMode::Optimistic), v.is_err_on(DataLengthProcessingMode::Conservative)), json!({"kind": "table"}));
                        return;
                    }
                    s.acc.sample(v as u64, || json!({"class": format!("{v:?}"), "is_err": is_err}));
                }
                fn consts<V: Variant>(acc: &mut Acc) {
                    acc.evals += 1;
                    acc.transitions += 8;
                    acc.nontrivial += 1;
                    let k = V::kind();
                    let (mn, mc, mx) = (V::gen_min(), V::gen_min_conservative(), V::gen_max());
                    let ok = mn as u64 == k.min_len()
                        && mc as u64 == k.min_len_conservative()
                        && mx as u64 == MAX_LEN
                        && V::validity(mn - 1) == DataLengthValidity::TooSmall
                        && V::validity(mn) != DataLengthValidity::TooSmall
                        && V::validity(mc) == DataLengthValidity::Valid
                        && (mc == mn || V::validity(mc - 1) == DataLengthValidity::ValidWhenOptimistic)
                        && V::validity(mx) == DataLengthValidity::Valid
                        && V::validity(mx + 1) == DataLengthValidity::TooLarge
                        && mx == TOPVAL[169];
                    if !ok {
                        acc.fail(100, "truth-tables", format!("{}: generator constants MIN={mn} MIN_CONSERVATIVE={mc} MAX={mx} are inconsistent with DataLengthValidity / the reference", V::NAME), json!({"kind": "table"}));
                    }
                }
                consts::<VShort>(&mut s.acc);
                consts::<VNormal>(&mut s.acc);
                consts::<VNormalLC>(&mut s.acc);
                consts::<VLong>(&mut s.acc);
                consts::<VLongLC>(&mut s.acc);
            },
        );
    }
    if ctx.want("lattice-prefix") {
        let top = if quick { 600 } else { 4096 };
        let streams = Stream::all(ctx.seed);
        r.section(
            "lattice-prefix",
            "every prefix length n of five streams, every variant: the 32 real finalizations obey the permissiveness lattice (Ok under o stays the identical Ok under every o' >= o; QUARTER == QUARTER|HALF) and report a length error exactly when the published classification of n says so; distinct by (variant,stream,n); non-trivial = all",
            &format!("n in 0..={top} x 6 streams x 5 variants x 32 options"),
            true,
            |s| {
                let streams = &streams;
                s.acc = par_for(5 * streams.len() as u64, 1, |idx, acc| {
                    let st = streams[(idx / 5) as usize];
                    let key = idx << 40;
                    match idx % 5 {
                        0 => judge_prefixes::<VShort>(st, top, acc, key),
                        1 => judge_prefixes::<VNormal>(st, top, acc, key),
                        2 => judge_prefixes::<VNormalLC>(st, top, acc, key),
                        3 => judge_prefixes::<VLong>(st, top, acc, key),
                        _ => judge_prefixes::<VLongLC>(st, top, acc, key),
                    }
                });
            },
        );
    }
    if ctx.want("lattice-short") {
        let alpha = [0x00u8, 0x41, 0x7f, 0xff];
        let maxlen = if quick { 7 } else { 9 };
        let count = short_string_count(4, maxlen);
        r.section(
            "lattice-short-inputs",
            "every string over {00,41,7f,ff} up to the length bound, every variant: lattice and length-error law on the 32 real finalizations; non-trivial = all",
            &format!("{count} strings x 5 variants"),
            true,
            |s| {
                s.acc = par_for(count * 5, 256, |idx, acc| {
                    let data = short_string(&alpha, idx / 5);
                    acc.evals += 1;
                    acc.transitions += 32;
                    acc.nontrivial += 1;
                    let res = with_variant!(idx % 5, judge_data(&data));
                    match res {
                        Ok(fp) => {
                            acc.outcomes.insert(fp);
                            if idx % 9973 == 0 {
                                acc.sample(idx, || json!({"variant": VARIANT_NAMES[(idx % 5) as usize], "data": hex(&data)}));
                            }
                        }
                        Err(e) => acc.fail(idx, "lattice-short-inputs", e, json!({"kind": "input", "variant": VARIANT_NAMES[(idx % 5) as usize], "data": hex(&data)})),
                    }
                });
            },
        );
    }
    if ctx.want("options-builder") {
        r.section(
            "options-builder-orders",
            "the option object is itself a small state machine: for each of the 32 target settings the five setters are called in every one of the 120 orders, from three start states (fresh, every knob first set to the opposite value, every knob first set to true); on generator states of every kind (empty, too small, three-quarter-empty, half-empty, healthy, ValidWhenOptimistic length) finalize must give the same result as the canonically built options (a setting is determined by the last value given to each knob), hence the lattice law holds for every way of building the options; non-trivial = sequences that start from a non-fresh state",
            "32 settings x 120 setter orders x 3 start states x 6 generator states x 5 variants",
            true,
            |s| {
                // all permutations of 0..5
                let mut perms: Vec<[usize; 5]> = Vec::new();
                fn rec(cur: &mut Vec<usize>, perms: &mut Vec<[usize; 5]>) {
                    if cur.len() == 5 {
                        perms.push([cur[0], cur[1], cur[2], cur[3], cur[4]]);
                        return;
                    }
                    for i in 0..5 {
                        if !cur.contains(&i) {
                            cur.push(i);
                            rec(cur, perms);
                            cur.pop();
                        }
                    }
                }
                rec(&mut Vec::new(), &mut perms);
                let perms = &perms;
                fn set(g: &mut tlsh::GeneratorOptions, knob: usize, v: bool) {
                    match knob {
                        0 => {
                            g.length_processing_mode(if v { DataLengthProcessingMode::Conservative } else { DataLengthProcessingMode::Optimistic });
                        }
                        1 => {
                            g.pure_integer_qratio_computation(v);
                        }
                        2 => {
                            g.allow_small_size_files(v);
                        }
                        3 => {
                            g.allow_statistically_weak_buckets_half(v);
                        }
                        _ => {
                            g.allow_statistically_weak_buckets_quarter(v);
                        }
                    }
                }
                fn knob_values(o: &Opts) -> [bool; 5] {
                    [o.conservative, o.pure_int, o.allow_small, o.allow_half, o.allow_quarter]
                }
                fn go<V: Variant>(perms: &[[usize; 5]], acc: &mut Acc, key: u64) {
                    let inputs: Vec<Vec<u8>> = vec![
                        vec![],
                        b"Hello, World!".to_vec(),
                        b"ABCDEABCDEABCDEABCDEABCDEABCDEABCDEABCDEABCDEABCDE".to_vec(),
                        b"ABCDEFGHIJKLMNOPQRSTABCDEFGHIJKLMNOPQRSTABCDEFGHIJ".to_vec(),
                        Stream::Mixed.bytes(0, 700),
                        Stream::Mixed.bytes(0, 90),
                    ];
                    for (gi, data) in inputs.iter().enumerate() {
                        let g = fresh_fed::<V>(data);
                        for o in Opts::all() {
                            let canonical = real_finalize::<V>(&g, &o);
                            let target = knob_values(&o);
                            for (pi, perm) in perms.iter().enumerate() {
                                for start in 0..3usize {
                                    let mut opts = tlsh::GeneratorOptions::new();
                                    match start {
                                        1 => (0..5).for_each(|k| set(&mut opts, k, !target[k])),
                                        2 => (0..5).for_each(|k| set(&mut opts, k, true)),
                                        _ => {}
                                    }
                                    for &k in perm {
                                        set(&mut opts, k, target[k]);
                                    }
                                    acc.evals += 1;
                                    acc.transitions += 6 + if start > 0 { 5 } else { 0 };
                                    if start > 0 {
                                        acc.nontrivial += 1;
                                    }
                                    let got: Outcome = match g.finalize_with_options(&opts) {
                                        Ok(h) => Ok(V::to_bytes(&h)),
                                        Err(e) => Err(map_gen_err(&e)),
                                    };
                                    if got != canonical {
                                        acc.fail(key + (gi * 1_000_000 + o.index() * 1000 + pi * 3 + start) as u64, "options-builder-orders",
                                            format!("{}: setting {} built by calling the setters in order {:?} from start state {start} gives finalize = {} but the canonically built options give {}", V::NAME, o.describe(), perm, outcome_str(&got), outcome_str(&canonical)),
                                            json!({"kind": "builder", "variant": V::NAME, "input": hex(data), "setting": o.index(), "order": perm, "start": start}));
                                        return;
                                    }
                                }
                            }
                            acc.outcomes.insert(outcomes_fp(std::slice::from_ref(&canonical)));
                        }
                    }
                    acc.sample(key, || json!({"variant": V::NAME, "orders": perms.len(), "start_states": 3, "generator_states": 6}));
                }
                s.acc = par_for(5, 1, |idx, acc| with_variant!(idx, go(perms, acc, idx << 40)));
            },
        );
    }
    #[cfg(fast_tlsh_verif)]
    {
        if ctx.want("lattice-shapes") {
            for (v, nb) in [(0usize, 48usize), (1, 128), (3, 256)] {
                let comps = compositions(nb, 3);
                let ncomp = comps.len() as u64;
                // lengths: one per length class
                let lens: [u32; 4] = [4, 60, 996, 4_224_281_212];
                r.section(
                    &format!("lattice-shapes-{nb}"),
                    "injected bucket arrays (every 3-class composition x 2 value alphabets incl. zeros x 2 placements) x 4 injected lengths (TooSmall, ValidWhenOptimistic/Valid, Valid, MAX): lattice and length-error law on the 32 real finalizations; non-trivial = all",
                    &format!("{ncomp} compositions x 2 alphabets x 2 placements x 4 lengths"),
                    true,
                    |s| {
                        let comps = &comps;
                        s.acc = par_for(ncomp * 16, 64, |idx, acc| {
                            let comp = &comps[(idx / 16) as usize];
                            let a = [0usize, 4][((idx / 8) % 2) as usize];
                            let pl = [0usize, 2][((idx / 4) % 2) as usize];
                            let len = lens[(idx % 4) as usize];
                            let buckets = place_buckets(nb, comp, &VALUE_ALPHABETS[a][..3], pl);
                            let p = tlsh::verif::GeneratorParts { buckets, len, checksum: [0x11, 0, 0], tail: [9, 8, 7, 6], tail_len: 4 };
                            acc.evals += 1;
                            acc.transitions += 32;
                            acc.nontrivial += 1;
                            fn go<V: Variant>(p: &tlsh::verif::GeneratorParts) -> Result<u64, String> {
                                judge_gen::<V>(&V::gen_from_parts(p))
                            }
                            let res = with_variant!(v, go(&p));
                            match res {
                                Ok(fp) => {
                                    acc.outcomes.insert(fp);
                                    if idx % 4001 == 0 {
                                        acc.sample(idx, || json!({"variant": VARIANT_NAMES[v], "composition": comp, "values": &VALUE_ALPHABETS[a][..3], "len": len as u64 + 4}));
                                    }
                                }
                                Err(e) => acc.fail(idx, "lattice-shapes", e, json!({"kind": "inject", "variant": VARIANT_NAMES[v], "parts": hooked::parts_json(&p)})),
                            }
                        });
                    },
                );
            }
        }
        if ctx.want("lattice-qratio") {
            // states whose quartiles sit on Q-ratio rounding boundaries: a permissive flag must not change the arithmetic
            let mut q3s: Vec<u32> = (1..=64).collect();
            for k in 8..32u32 {
                q3s.push(1u32 << k);
                q3s.push((1u32 << k) - 1);
                q3s.push((1u32 << k) + 1);
            }
            for i in 0..400u64 {
                q3s.push((3 + i * 83_887) as u32);
                q3s.push(((1u64 << 25) + i * 10_653_533) as u32);
            }
            q3s.sort();
            q3s.dedup();
            r.section(
                "lattice-qratio",
                "injected states whose quartiles (q, q, q3) sit on Q-ratio rounding boundaries (q = floor(m*q3/100) + {-1,0,1} for m in 0..=100, q3 small, around powers of two and strided to 2^32): the lattice law on the 32 real finalizations, so that a permissive flag cannot silently change the hash of an accepted input through the Q-ratio arithmetic; non-trivial = states where the integer and f32 formulas differ",
                &format!("{} q3 values x 101 ratios x 3 offsets x 32 options", q3s.len()),
                true,
                |s| {
                    let q3s = &q3s;
                    s.acc = par_for(q3s.len() as u64 * 101, 64, |idx, acc| {
                        let q3 = q3s[(idx / 101) as usize];
                        let m = idx % 101;
                        let base = (m * q3 as u64 / 100) as i64;
                        for d in -1i64..=1 {
                            let q = (base + d).clamp(0, q3 as i64) as u32;
                            let (v, nb) = if idx.wrapping_add(d as u64) % 2 == 0 { (1usize, 128usize) } else { (0usize, 48usize) };
                            let qn = nb / 4;
                            let mut buckets = [0x0101_0101u32; 256];
                            for i in 0..nb {
                                let cls = ((i * 37 + 11) % nb) / qn;
                                buckets[i] = [q, q, q3, q3][cls];
                            }
                            let p = tlsh::verif::GeneratorParts { buckets, len: 70_000, checksum: [9, 0, 0], tail: [2, 2, 2, 2], tail_len: 4 };
                            acc.evals += 1;
                            acc.transitions += 32;
                            if ref_qratio_int(q, q3) != ref_qratio_f32(q, q3) {
                                acc.nontrivial += 1;
                            }
                            fn go<V: Variant>(p: &tlsh::verif::GeneratorParts) -> Result<u64, String> {
                                judge_gen::<V>(&V::gen_from_parts(p))
                            }
                            let res = with_variant!(v, go(&p));
                            match res {
                                Ok(fp) => acc.outcomes.insert(fp),
                                Err(e) => {
                                    acc.fail(idx * 3 + (d + 1) as u64, "lattice-qratio", format!("quartiles ({q},{q},{q3}): {e}"), json!({"kind": "inject", "variant": VARIANT_NAMES[v], "parts": hooked::parts_json(&p)}));
                                    return;
                                }
                            }
                        }
                        if idx % 5003 == 0 {
                            acc.sample(idx, || json!({"q3": q3, "ratio_percent": m}));
                        }
                    });
                },
            );
        }
        if ctx.want("length-error-boundaries") {
            let mut ns: Vec<u32> = Vec::new();
            for c in [0u64, 10, 50, 128, MAX_LEN, u32::MAX as u64] {
                for d in -8i64..=8 {
                    let v = c as i64 + d;
                    if (0..=u32::MAX as i64).contains(&v) {
                        ns.push(v as u32);
                    }
                }
            }
            for &t in TOPVAL.iter() {
                ns.push(t);
                ns.push(t + 1);
            }
            ns.sort();
            ns.dedup();
            r.section(
                "length-error-boundaries",
                "generator injected at n bytes for n within +-8 of 0, 10, 50, 128, MAX, 2^32-1 and at every length-code boundary, with a healthy and with a mostly-empty bucket array: lattice and length-error law; non-trivial = all",
                &format!("{} lengths x 2 bucket arrays x 5 variants", ns.len()),
                true,
                |s| {
                    let ns = &ns;
                    s.acc = par_for(ns.len() as u64 * 10, 16, |idx, acc| {
                        let n = ns[(idx / 10) as usize];
                        let weak = (idx % 10) / 5 == 1;
                        let v = (idx % 5) as usize;
                        acc.evals += 1;
                        acc.transitions += 32;
                        acc.nontrivial += 1;
                        let res = with_variant!(v, judge_injected_len(n, weak));
                        match res {
                            Ok(fp) => {
                                acc.outcomes.insert(fp);
                                if n == 49 {
                                    acc.sample(idx, || json!({"variant": VARIANT_NAMES[v], "n": n, "weak_buckets": weak}));
                                }
                            }
                            Err(e) => acc.fail(idx, "length-error-boundaries", e, json!({"kind": "injected-len", "variant": VARIANT_NAMES[v], "n": n, "weak": weak})),
                        }
                    });
                },
            );
        }
    }
    crate::seq::section(r, ctx, "generate");
}

fn rprefix<V: Variant>(st: Stream, n: u64) -> Result<(), String> {
    judge_data::<V>(&st.bytes(0, n as usize)).map(|_| ())
}
fn rdata<V: Variant>(d: &[u8]) -> Result<(), String> {
    judge_data::<V>(d).map(|_| ())
}

pub fn replay(case: &Value) -> Result<(), String> {
    match case["kind"].as_str().unwrap_or("") {
        "validity" => {
            let nb = case["nb"].as_u64().ok_or("nb")? as usize;
            let n = case["n"].as_u64().ok_or("n")?;
            let real = map_validity(validity_of(nb, n as u32));
            let expect = ref_validity(Kind::from_nb(nb), n);
            if real == expect { Ok(()) } else { Err(format!("validity {real:?} vs reference {expect:?}")) }
        }
        "prefix" => {
            let v = case["variant"].as_str().ok_or("variant")?;
            let st = Stream::from_name(case["stream"].as_str().ok_or("stream")?).ok_or("stream")?;
            let n = case["n"].as_u64().ok_or("n")?;
            with_variant!(v, rprefix(st, n))
        }
        "input" => {
            let v = case["variant"].as_str().ok_or("variant")?;
            let d = unhex(case["data"].as_str().ok_or("data")?);
            with_variant!(v, rdata(&d))
        }
        #[cfg(fast_tlsh_verif)]
        "inject" => {
            let v = case["variant"].as_str().ok_or("variant")?;
            let p = hooked::parts_from_json(&case["parts"]);
            fn go<V: Variant>(p: &tlsh::verif::GeneratorParts) -> Result<(), String> {
                judge_gen::<V>(&V::gen_from_parts(p)).map(|_| ())
            }
            with_variant!(v, go(&p))
        }
        #[cfg(fast_tlsh_verif)]
        "injected-len" => {
            let v = case["variant"].as_str().ok_or("variant")?;
            let n = case["n"].as_u64().ok_or("n")? as u32;
            let weak = case["weak"].as_bool().unwrap_or(false);
            with_variant!(v, judge_injected_len(n, weak)).map(|_| ())
        }
        "table" => Err("truth table / constants mismatch: re-run the check".into()),
        k => Err(format!("unknown replay kind {k}")),
    }
}
