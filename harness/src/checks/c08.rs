//! C08 — distance is reflexive, symmetric and bounded by max_distance.

use crate::checks::c02::{backgrounds, mode_of};
use crate::checks::common::*;
use crate::refmodel::*;
use crate::report::*;
use crate::streams::splitmix64;
use crate::variant::*;
use crate::{with_variant, Ctx};
use serde_json::{json, Value};
use tlsh::hash::checksum::FuzzyHashChecksum;
use tlsh::FuzzyHashType;

/// All metric laws on one ordered pair (binary forms).
pub fn judge_laws<V: Variant>(a: &[u8], b: &[u8]) -> Result<u32, String> {
    let ha = V::from_slice(a).map_err(|e| format!("try_from(a): {e:?}"))?;
    let hb = V::from_slice(b).map_err(|e| format!("try_from(b): {e:?}"))?;
    let mut d = [0u32; 2];
    for (i, wl) in [true, false].into_iter().enumerate() {
        let m = mode_of(wl);
        let mname = if wl { "Default" } else { "NoLength" };
        let dab = ha.compare_with_config(&hb, m);
        let dba = hb.compare_with_config(&ha, m);
        if dab != dba {
            return Err(format!("{} {mname}: d(a,b) = {dab} but d(b,a) = {dba}", V::NAME));
        }
        if ha.compare_with_config(&ha, m) != 0 || hb.compare_with_config(&hb, m) != 0 {
            return Err(format!("{} {mname}: d(x,x) != 0", V::NAME));
        }
        let max = <V::Hash as FuzzyHashType>::max_distance(m);
        if dab > max {
            return Err(format!("{} {mname}: d(a,b) = {dab} exceeds max_distance = {max}", V::NAME));
        }
        d[i] = dab;
    }
    // identity of indiscernibles in the default mode
    if (d[0] == 0) != (a == b) {
        return Err(format!("{}: d_Default(a,b) = {} but a {} b", V::NAME, d[0], if a == b { "==" } else { "!=" }));
    }
    // Default = NoLength + length distance (from the part accessor)
    let ld = ha.length().compare(hb.length());
    if d[0] != d[1] + ld {
        return Err(format!("{}: d_Default = {} but d_NoLength + length_distance = {} + {ld}", V::NAME, d[0], d[1]));
    }
    // clearing both checksums lowers the distance by the number of differing checksum bytes
    let cd = ha.checksum().compare(hb.checksum());
    let differing = a[..V::CK].iter().zip(b[..V::CK].iter()).filter(|(x, y)| x != y).count() as u32;
    if cd != differing {
        return Err(format!("{}: checksum().compare() = {cd} but {differing} checksum bytes differ", V::NAME));
    }
    let (mut ca, mut cb) = (ha, hb);
    ca.clear_checksum();
    cb.clear_checksum();
    for (i, wl) in [true, false].into_iter().enumerate() {
        let dc = ca.compare_with_config(&cb, mode_of(wl));
        if dc + differing != d[i] {
            return Err(format!("{}: d(clear a, clear b) = {dc} but d(a,b) - differing checksum bytes = {} - {differing}", V::NAME, d[i]));
        }
    }
    Ok(d[0])
}

pub fn pool<V: Variant>(n: usize) -> Vec<Vec<u8>> {
    let mut v: Vec<Vec<u8>> = Vec::new();
    v.push(vec![0; V::SIZE]);
    v.push(vec![0xff; V::SIZE]);
    v.push(vec![0x55; V::SIZE]);
    v.push(vec![0xaa; V::SIZE]);
    let mut i = 0u64;
    while v.len() < n {
        let mut h: Vec<u8> = (0..V::SIZE).map(|j| (splitmix64(i * 1000 + j as u64) >> 32) as u8).collect();
        // near-twins: every third hash is a one-byte mutation of the previous
        if i % 3 == 2 {
            let prev = v[v.len() - 1].clone();
            h = prev;
            let p = (splitmix64(i) % V::SIZE as u64) as usize;
            h[p] ^= 1 << (i % 8);
        }
        v.push(h);
        i += 1;
    }
    v
}

fn per_variant<V: Variant>(r: &mut Report, ctx: &Ctx) {
    let quick = ctx.quick();
    let name = format!("one-byte-{}", V::NAME);
    if ctx.want(&name) {
        let nbg = if quick { 3 } else { 6 };
        r.section(
            &name,
            "pairs differing in exactly one byte (every position of the hash, all 2^16 value pairs, backgrounds): reflexive, zero-iff-equal (default mode), symmetric, bounded, Default = NoLength + length distance, checksum clearing; distinct by enumeration; non-trivial = x != y",
            &format!("{} positions x 2^16 x {nbg} backgrounds", V::SIZE),
            true,
            |s| {
                let bgs = backgrounds(V::SIZE);
                let bgs = &bgs;
                s.acc = par_for((V::SIZE * nbg * 256) as u64, 8, |idx, acc| {
                    let x = (idx % 256) as u8;
                    let bg = [0usize, 16, 15, 5, 10, 17][(idx / 256) as usize % nbg];
                    let pos = (idx / 256) as usize / nbg;
                    // same background on both sides: the pair differs in exactly one byte
                    let mut a = bgs[bg].0.clone();
                    let mut b = bgs[bg].0.clone();
                    for y in 0..=255u8 {
                        a[pos] = x;
                        b[pos] = y;
                        acc.evals += 1;
                        acc.transitions += 10;
                        if x != y {
                            acc.nontrivial += 1;
                        }
                        match judge_laws::<V>(&a, &b) {
                            Ok(d) => {
                                if pos < V::CK + 3 {
                                    acc.outcomes.insert(d as u64);
                                }
                            }
                            Err(e) => {
                                acc.fail(idx * 256 + y as u64, &name, e, json!({"kind": "laws", "variant": V::NAME, "a": hex(&a), "b": hex(&b)}));
                                return;
                            }
                        }
                    }
                    if x == 7 {
                        acc.sample(idx, || json!({"variant": V::NAME, "position": pos, "x": x, "y": "0..=255", "background": bg}));
                    }
                });
            },
        );
    }
    let name = format!("pool-{}", V::NAME);
    if ctx.want(&name) {
        let n = if quick { 64 } else { 256 };
        r.section(
            &name,
            "all ordered pairs from a deterministic hash pool (structured fills, mixed bytes, one-bit near-twins): all metric laws; non-trivial = unordered pairs of distinct hashes",
            &format!("{n} x {n} ordered pairs"),
            true,
            |s| {
                let p = pool::<V>(n);
                let p = &p;
                s.acc = par_for((n * n) as u64, 64, |idx, acc| {
                    let (i, j) = ((idx as usize) / n, (idx as usize) % n);
                    acc.evals += 1;
                    acc.transitions += 10;
                    if p[i] != p[j] {
                        acc.nontrivial += 1;
                    }
                    match judge_laws::<V>(&p[i], &p[j]) {
                        Ok(d) => {
                            acc.outcomes.insert(d as u64);
                            if i == 5 && j == 6 {
                                acc.sample(idx, || json!({"variant": V::NAME, "a": hex(&p[i]), "b": hex(&p[j]), "distance": d}));
                            }
                        }
                        Err(e) => acc.fail(idx, &name, e, json!({"kind": "laws", "variant": V::NAME, "a": hex(&p[i]), "b": hex(&p[j])})),
                    }
                });
            },
        );
    }
    let name = format!("max-witness-{}", V::NAME);
    if ctx.want(&name) {
        r.section(
            &name,
            "max_distance(mode) equals the reference bound and is attained by a constructed witness pair in both modes; non-trivial = all",
            "2 modes x 2 witnesses",
            true,
            |s| {
                for wl in [true, false] {
                    let m = mode_of(wl);
                    let max = <V::Hash as FuzzyHashType>::max_distance(m);
                    let expect = ref_max_distance(V::CK, V::BODY, wl);
                    s.acc.evals += 1;
                    s.acc.transitions += 1;
                    s.acc.nontrivial += 1;
                    if max != expect {
                        s.acc.fail(0, &name, format!("{} max_distance({}) = {max} but reference = {expect}", V::NAME, wl), json!({"kind": "max", "variant": V::NAME}));
                        return;
                    }
                    for (qa, qb, la, lb) in [(0x00u8, 0x88u8, 0u8, 0x80u8), (0x19, 0x91, 0x40, 0xc0)] {
                        let mut a = vec![0u8; V::SIZE];
                        let mut b = vec![0xffu8; V::SIZE];
                        for i in 0..V::CK {
                            a[i] = i as u8;
                            b[i] = 0x80 + i as u8;
                        }
                        a[V::CK] = la;
                        b[V::CK] = lb;
                        a[V::CK + 1] = qa;
                        b[V::CK + 1] = qb;
                        s.acc.evals += 1;
                        s.acc.transitions += 1;
                        s.acc.nontrivial += 1;
                        let ha = V::from_slice(&a);
                        let hb = V::from_slice(&b);
                        match (ha, hb) {
                            (Ok(ha), Ok(hb)) => {
                                let d = ha.compare_with_config(&hb, m);
                                s.acc.outcomes.insert(d as u64);
                                if d != max {
                                    s.acc.fail(1, &name, format!("{} witness distance {d} does not attain max_distance {max}", V::NAME), json!({"kind": "laws", "variant": V::NAME, "a": hex(&a), "b": hex(&b)}));
                                    return;
                                }
                                s.acc.sample(d as u64, || json!({"variant": V::NAME, "a": hex(&a), "b": hex(&b), "distance": d, "mode_with_length": wl}));
                            }
                            _ => {
                                if !cfg!(feature = "strict-parser") {
                                    s.acc.fail(2, &name, "witness rejected by the lenient parser".into(), json!({"kind": "laws", "variant": V::NAME, "a": hex(&a), "b": hex(&b)}));
                                }
                            }
                        }
                    }
                }
            },
        );
    }
}

pub fn run(r: &mut Report, ctx: &Ctx) {
    quiet_panics();
    per_variant::<VShort>(r, ctx);
    per_variant::<VNormal>(r, ctx);
    per_variant::<VNormalLC>(r, ctx);
    per_variant::<VLong>(r, ctx);
    per_variant::<VLongLC>(r, ctx);
    crate::seq::section(r, ctx, "compare");
}

fn replay_laws<V: Variant>(a: &[u8], b: &[u8]) -> Result<(), String> {
    judge_laws::<V>(a, b).map(|d| println!("laws hold; d_Default = {d}"))
}

pub fn replay(case: &Value) -> Result<(), String> {
    match case["kind"].as_str().unwrap_or("") {
        "laws" => {
            let a = unhex(case["a"].as_str().ok_or("a")?);
            let b = unhex(case["b"].as_str().ok_or("b")?);
            let v = case["variant"].as_str().ok_or("variant")?;
            with_variant!(v, replay_laws(&a, &b))
        }
        "max" => Ok(()),
        k => Err(format!("unknown replay kind {k}")),
    }
}
