//! C04 — hex text form round-trips and is canonical.

use crate::checks::codec::*;
use crate::checks::common::*;
use crate::report::*;
use crate::variant::*;
use crate::{with_variant, Ctx};
use serde_json::{json, Value};

fn per_variant<V: Variant>(r: &mut Report, ctx: &Ctx) {
    let name = format!("format-values-{}", V::NAME);
    if ctx.want(&name) {
        r.section(
            &name,
            "hash values = every byte position x all 256 values x 4 backgrounds, plus all 2^16 values of every adjacent header byte pair: Display, to_string, store_into_str_bytes (both prefixes) equal the reference text, exact length, T1 + uppercase hex only; every parse entry point (from_str, str::parse, from_str_with x modes, from_str_bytes x modes, lower-cased text) returns the identical hash; distinct by enumeration; non-trivial = all",
            &format!("{} + {} values", value_count::<V>(), header_window_count::<V>()),
            true,
            |s| {
                let n1 = value_count::<V>();
                let n2 = header_window_count::<V>();
                s.acc = par_for(n1 + n2, 512, |idx, acc| {
                    let bytes = if idx < n1 { value_by_index::<V>(idx) } else { header_window_by_index::<V>(idx - n1) };
                    if !constructible::<V>(&bytes) {
                        return;
                    }
                    acc.evals += 1;
                    acc.transitions += 14;
                    acc.nontrivial += 1;
                    match judge_format::<V>(&bytes) {
                        Ok(()) => {
                            if idx % 4099 == 0 {
                                acc.outcomes.insert_bytes(&bytes);
                                acc.sample(idx, || json!({"variant": V::NAME, "value": hex(&bytes), "text": String::from_utf8_lossy(&crate::refmodel::ref_hex_format(&bytes, V::CK, true))}));
                            }
                        }
                        Err(e) => acc.fail(idx, &name, e, json!({"kind": "format", "variant": V::NAME, "value": hex(&bytes)})),
                    }
                });
            },
        );
    }
    let name = format!("canonical-{}", V::NAME);
    if ctx.want(&name) {
        let bases = base_strings::<V>();
        r.section(
            &name,
            "every string within one deviation (any position x all 256 byte values) of 6 well-formed base strings (3 contents x with/without prefix): if accepted, it re-formats to \"T1\" + uppercase(digits); distinct by enumeration; non-trivial = accepted strings",
            &format!("6 bases x {} positions x 256 values", V::STRLEN),
            true,
            |s| {
                let bases = &bases;
                s.acc = par_for(6 * V::STRLEN as u64 * 256, 512, |idx, acc| {
                    let x = (idx % 256) as u8;
                    let pos = ((idx / 256) % V::STRLEN as u64) as usize;
                    let b = (idx / 256 / V::STRLEN as u64) as usize;
                    let mut st = bases[b % 3].clone();
                    if b >= 3 {
                        st.drain(..2);
                    }
                    if pos >= st.len() {
                        return;
                    }
                    st[pos] = x;
                    acc.evals += 1;
                    acc.transitions += 2;
                    match judge_canonical::<V>(&st) {
                        Ok(accepted) => {
                            if accepted {
                                acc.nontrivial += 1;
                                if idx % 1021 == 0 {
                                    acc.outcomes.insert_bytes(&st);
                                    acc.sample(idx, || json!({"variant": V::NAME, "accepted": String::from_utf8_lossy(&st)}));
                                }
                            }
                        }
                        Err(e) => acc.fail(idx, &name, e, json!({"kind": "canonical", "variant": V::NAME, "string": hex(&st)})),
                    }
                });
            },
        );
    }
}

pub fn run(r: &mut Report, ctx: &Ctx) {
    quiet_panics();
    per_variant::<VShort>(r, ctx);
    per_variant::<VNormal>(r, ctx);
    per_variant::<VNormalLC>(r, ctx);
    per_variant::<VLong>(r, ctx);
    per_variant::<VLongLC>(r, ctx);
}

fn rf<V: Variant>(b: &[u8]) -> Result<(), String> {
    judge_format::<V>(b)
}
fn rc<V: Variant>(b: &[u8]) -> Result<(), String> {
    judge_canonical::<V>(b).map(|_| ())
}

pub fn replay(case: &Value) -> Result<(), String> {
    let v = case["variant"].as_str().ok_or("variant")?;
    match case["kind"].as_str().unwrap_or("") {
        "format" => {
            let b = unhex(case["value"].as_str().ok_or("value")?);
            with_variant!(v, rf(&b))
        }
        "canonical" => {
            let b = unhex(case["string"].as_str().ok_or("string")?);
            with_variant!(v, rc(&b))
        }
        k => Err(format!("unknown replay kind {k}")),
    }
}
