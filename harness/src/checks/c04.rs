//! C04 — hex text form round-trips and is canonical.

use crate::checks::codec::*;
use crate::checks::common::*;
use crate::report::*;
use crate::variant::*;
use crate::{with_variant, Ctx};
use serde_json::{json, Value};

fn per_variant<V: Variant>(r: &mut Report, ctx: &Ctx) {
    let name = format!("format-values-{}", V::NAME);
    if ctx.want(&name) {
        r.section(
            &name,
            "hash values = every byte position x all 256 values x 4 backgrounds, plus all 2^16 values of every adjacent header byte pair: Display, to_string, store_into_str_bytes (both prefixes) equal the reference text, exact length, T1 + uppercase hex only; every parse entry point (from_str, str::parse, from_str_with x modes, from_str_bytes x modes, lower-cased text) returns the identical hash; distinct by enumeration; non-trivial = all",
            &format!("{} + {} values", value_count::<V>(), header_window_count::<V>()),
            true,
            |s| {
                let n1 = value_count::<V>();
                let n2 = header_window_count::<V>();
                s.acc = par_for(n1 + n2, 512, |idx, acc| {
                    let bytes = if idx < n1 { value_by_index::<V>(idx) } else { header_window_by_index::<V>(idx - n1) };
                    if !constructible::<V>(&bytes) {
                        return;
                    }
                    acc.evals += 1;
                    acc.transitions += 14;
                    acc.nontrivial += 1;
                    match judge_format::<V>(&bytes) {
                        Ok(()) => {
                            if idx % 4099 == 0 {
                                acc.outcomes.insert_bytes(&bytes);
                                acc.sample(idx, || json!({"variant": V::NAME, "value": hex(&bytes), "text": String::from_utf8_lossy(&crate::refmodel::ref_hex_format(&bytes, V::CK, true))}));
                            }
                        }
                        Err(e) => acc.fail(idx, &name, e, json!({"kind": "format", "variant": V::NAME, "value": hex(&bytes)})),
                    }
                });
            },
        );
    }
    let name = format!("canonical-{}", V::NAME);
    if ctx.want(&name) {
        let bases = base_strings::<V>();
        r.section(
            &name,
            "every string within one deviation (any position x all 256 byte values) of 6 well-formed base strings (3 contents x with/without prefix): if accepted, it re-formats to \"T1\" + uppercase(digits); distinct by enumeration; non-trivial = accepted strings",
            &format!("6 bases x {} positions x 256 values", V::STRLEN),
            true,
            |s| {
                let bases = &bases;
                s.acc = par_for(6 * V::STRLEN as u64 * 256, 512, |idx, acc| {
                    let x = (idx % 256) as u8;
                    let pos = ((idx / 256) % V::STRLEN as u64) as usize;
                    let b = (idx / 256 / V::STRLEN as u64) as usize;
                    let mut st = bases[b % 3].clone();
                    if b >= 3 {
                        st.drain(..2);
                    }
                    if pos >= st.len() {
                        return;
                    }
                    st[pos] = x;
                    acc.evals += 1;
                    acc.transitions += 2;
                    match judge_canonical::<V>(&st) {
                        Ok(accepted) => {
                            if accepted {
                                acc.nontrivial += 1;
                                if idx % 1021 == 0 {
                                    acc.outcomes.insert_bytes(&st);
                                    acc.sample(idx, || json!({"variant": V::NAME, "accepted": String::from_utf8_lossy(&st)}));
                                }
                            }
                        }
                        Err(e) => acc.fail(idx, &name, e, json!({"kind": "canonical", "variant": V::NAME, "string": hex(&st)})),
                    }
                });
            },
        );
    }
}

fn format_generated<V: Variant>(r: &mut Report, ctx: &Ctx) {
    use crate::refmodel::Opts;
    use crate::streams::Stream;
    use tlsh::GeneratorType;
    let name = format!("format-generated-{}", V::NAME);
    if !ctx.want(&name) {
        return;
    }
    r.section(
        &name,
        "hashes obtained from the generator (every prefix length of two streams, all 32 option settings) format exactly like the same value obtained from its bytes and from its own text: a hash's text does not depend on how the hash was obtained; non-trivial = Ok hashes",
        "n in 0..=400 x 2 streams x 32 options",
        true,
        |s| {
            for st in [Stream::Mixed, Stream::Alpha] {
                let mut g = V::new_gen();
                for n in 0..=400u64 {
                    for o in Opts::all() {
                        s.acc.evals += 1;
                        s.acc.transitions += 4;
                        if let Ok(h) = g.finalize_with_options(&real_opts(&o)) {
                            s.acc.nontrivial += 1;
                            let bytes = V::to_bytes(&h);
                            let expect = String::from_utf8(crate::refmodel::ref_hex_format(&bytes, V::CK, true)).unwrap();
                            let text = h.to_string();
                            let via_bytes = V::from_slice(&bytes).map(|x| x.to_string());
                            let via_text = text.parse::<V::Hash>().map(|x| x.to_string());
                            if text != expect || via_bytes.as_ref().ok() != Some(&expect) || via_text.as_ref().ok() != Some(&expect) {
                                s.acc.fail(n * 32 + o.index() as u64, &name, format!("{} generated hash ({} n={n}, options {}) formats as {text}, via bytes {:?}, via text {:?}, reference text {expect}", V::NAME, st.name(), o.describe(), via_bytes, via_text), json!({"kind": "format", "variant": V::NAME, "value": hex(&bytes)}));
                                return;
                            }
                            s.acc.outcomes.insert_bytes(&bytes[..V::CK + 2]);
                            if n == 300 && o.index() == 0 {
                                s.acc.sample(n, || json!({"variant": V::NAME, "stream": st.name(), "n": n, "text": text}));
                            }
                        }
                    }
                    g.update(&[st.byte(n)]);
                }
            }
        },
    );
}

pub fn run(r: &mut Report, ctx: &Ctx) {
    quiet_panics();
    format_generated::<VShort>(r, ctx);
    format_generated::<VNormal>(r, ctx);
    format_generated::<VNormalLC>(r, ctx);
    format_generated::<VLong>(r, ctx);
    format_generated::<VLongLC>(r, ctx);
    per_variant::<VShort>(r, ctx);
    per_variant::<VNormal>(r, ctx);
    per_variant::<VNormalLC>(r, ctx);
    per_variant::<VLong>(r, ctx);
    per_variant::<VLongLC>(r, ctx);
    crate::seq::section(r, ctx, "codec");
}

fn rf<V: Variant>(b: &[u8]) -> Result<(), String> {
    judge_format::<V>(b)
}
fn rc<V: Variant>(b: &[u8]) -> Result<(), String> {
    judge_canonical::<V>(b).map(|_| ())
}

pub fn replay(case: &Value) -> Result<(), String> {
    let v = case["variant"].as_str().ok_or("variant")?;
    match case["kind"].as_str().unwrap_or("") {
        "format" => {
            let b = unhex(case["value"].as_str().ok_or("value")?);
            with_variant!(v, rf(&b))
        }
        "canonical" => {
            let b = unhex(case["string"].as_str().ok_or("string")?);
            with_variant!(v, rc(&b))
        }
        k => Err(format!("unknown replay kind {k}")),
    }
}
