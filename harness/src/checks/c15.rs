//! C15 — strict parser rejects exactly impossible hashes; generated hashes always pass.

use crate::checks::c01::{short_string, short_string_count};
use crate::checks::codec::*;
use crate::checks::common::*;
use crate::refmodel::*;
use crate::report::*;
use crate::streams::Stream;
use crate::variant::*;
use crate::{with_variant, Ctx};
use serde_json::{json, Value};
use std::str::FromStr;
use tlsh::{FuzzyHashType, GeneratorType};

/// Binary strict parse vs the rule.
pub fn judge_strict_binary<V: Variant>(bytes: &[u8]) -> Result<u64, String> {
    let errs = if STRICT { ref_strict_errors(bytes, V::CK, V::NB == 48) } else { vec![] };
    let mut fp = 0u64;
    for (which, real) in [("slice", catch(|| V::from_slice(bytes))), ("array", catch(|| V::from_array(bytes)))] {
        let real = real.map_err(|p| format!("{} try_from({which}) panicked: {p}", V::NAME))?;
        match (&real, errs.is_empty()) {
            (Ok(h), true) => {
                if V::to_bytes(h) != bytes {
                    return Err(format!("{} try_from({which}) of {} gives a different value {}", V::NAME, hex(bytes), hex(&V::to_bytes(h))));
                }
            }
            (Err(e), false) => {
                let m = map_parse_err(e);
                if !errs.contains(&m) {
                    return Err(format!("{} try_from({which}) of {} = Err({e:?}) but the applicable strict errors are {errs:?}", V::NAME, hex(bytes)));
                }
                fp = 1 + m as u64;
            }
            (Ok(_), false) => return Err(format!("{} strict try_from({which}) accepted {} although {errs:?} applies", V::NAME, hex(bytes))),
            (Err(e), true) => return Err(format!("{} try_from({which}) rejected the valid value {} with {e:?}", V::NAME, hex(bytes))),
        }
    }
    Ok(fp)
}

/// A generated hash satisfies the strict conditions and survives strict round trips.
pub fn judge_generated_hash<V: Variant>(h: &V::Hash) -> Result<(), String> {
    let bytes = V::to_bytes(h);
    if !V::checksum_valid(h) {
        return Err(format!("{} generated hash {} has checksum().is_valid() == false", V::NAME, h));
    }
    if V::NB == 48 && bytes[0] > 48 {
        return Err(format!("{} generated hash {} has checksum byte {} > 48", V::NAME, h, bytes[0]));
    }
    if !h.length().is_valid() || bytes[V::CK] >= 170 {
        return Err(format!("{} generated hash {} has an invalid length code {}", V::NAME, h, bytes[V::CK]));
    }
    let text = h.to_string();
    match <V::Hash as FromStr>::from_str(&text) {
        Ok(back) if back == *h => {}
        other => return Err(format!("{} generated hash {text} does not survive a {}text round trip: {:?}", V::NAME, if STRICT { "strict " } else { "" }, other.map(|x| x.to_string()))),
    }
    match V::from_slice(&bytes) {
        Ok(back) if back == *h => {}
        other => return Err(format!("{} generated hash {text} does not survive a {}binary round trip: {:?}", V::NAME, if STRICT { "strict " } else { "" }, other.map(|x| x.to_string()))),
    }
    Ok(())
}

fn judge_generated_all<V: Variant>(g: &V::Gen) -> Result<u64, String> {
    let mut oks = 0;
    for o in Opts::all() {
        if let Ok(h) = g.finalize_with_options(&real_opts(&o)) {
            judge_generated_hash::<V>(&h).map_err(|e| format!("options {}: {e}", o.describe()))?;
            oks += 1;
        }
    }
    Ok(oks)
}

fn header_sweeps<V: Variant>(r: &mut Report, ctx: &Ctx) {
    let name = format!("strict-header-{}", V::NAME);
    if !ctx.want(&name) {
        return;
    }
    r.section(
        &name,
        "all 256 values of the (first) checksum byte x all 256 length codes, text (all parse entry points and prefix modes) and binary (array and slice): strict result == lenient reference result, then rejected iff checksum > 48 on the 48-bucket variant (InvalidChecksum) or code >= 170 (LengthIsTooLarge); an input invalid for exactly one reason reports exactly that error; accepted values identical; distinct by enumeration; non-trivial = rejected inputs",
        "2^16 header combinations x 2 backgrounds x {text, binary}",
        true,
        |s| {
            s.acc = par_for(65536 * 2, 512, |idx, acc| {
                let c = (idx % 256) as u8;
                let l = ((idx / 256) % 256) as u8;
                let bg = idx / 65536;
                let mut b: Vec<u8> = if bg == 0 { vec![0x21; V::SIZE] } else { (0..V::SIZE).map(|i| (i * 11 + 3) as u8).collect() };
                b[0] = c;
                b[V::CK] = l;
                acc.evals += 2;
                acc.transitions += 9;
                let rejected = !ref_strict_errors(&b, V::CK, V::NB == 48).is_empty();
                if rejected && STRICT {
                    acc.nontrivial += 2;
                }
                let text = ref_hex_format(&b, V::CK, idx % 2 == 0);
                let res = judge_strict_binary::<V>(&b).and_then(|fp| judge_parse::<V>(&text).map(|f2| fp ^ (f2 << 8)));
                match res {
                    Ok(fp) => {
                        acc.outcomes.insert(fp);
                        if idx % 6553 == 0 {
                            acc.sample(idx, || json!({"variant": V::NAME, "checksum_byte": c, "length_code": l, "strict_rejects": rejected && STRICT}));
                        }
                    }
                    Err(e) => acc.fail(idx, &name, e, json!({"kind": "header", "variant": V::NAME, "bytes": hex(&b)})),
                }
            });
        },
    );
}

fn binary_values<V: Variant>(r: &mut Report, ctx: &Ctx) {
    let name = format!("strict-binary-values-{}", V::NAME);
    if !ctx.want(&name) {
        return;
    }
    r.section(
        &name,
        "every byte position x all 256 values x 4 backgrounds (no strict adjustment: header bytes take impossible values too) through the array and slice conversions: accepted iff the strict rule allows it, with an applicable error otherwise; the strict rule must look at the checksum and length bytes only (Q-ratio byte and body are free); non-trivial = rejected values",
        &format!("{} values", V::SIZE * 4 * 256),
        true,
        |s| {
            s.acc = par_for((V::SIZE * 4 * 256) as u64, 512, |idx, acc| {
                let x = (idx % 256) as u8;
                let bg = ((idx / 256) % 4) as usize;
                let pos = (idx / 1024) as usize;
                let mut b: Vec<u8> = match bg {
                    0 => vec![0x00; V::SIZE],
                    1 => vec![0xff; V::SIZE],
                    2 => vec![0x5a; V::SIZE],
                    _ => (0..V::SIZE).map(|i| (i * 37 + 11) as u8).collect(),
                };
                b[pos] = x;
                acc.evals += 1;
                acc.transitions += 2;
                match judge_strict_binary::<V>(&b) {
                    Ok(fp) => {
                        acc.outcomes.insert(fp);
                        if fp != 0 {
                            acc.nontrivial += 1;
                        }
                        if idx % 9001 == 0 {
                            acc.sample(idx, || json!({"variant": V::NAME, "bytes": hex(&b), "rejected": fp != 0}));
                        }
                    }
                    Err(e) => acc.fail(idx, &name, e, json!({"kind": "header", "variant": V::NAME, "bytes": hex(&b)})),
                }
            });
        },
    );
}

fn generated<V: Variant>(st: Stream, top: u64, acc: &mut Acc, key: u64) {
    let mut g = V::new_gen();
    for n in 0..=top {
        acc.evals += 1;
        acc.transitions += 32;
        match judge_generated_all::<V>(&g) {
            Ok(oks) => {
                if oks > 0 {
                    acc.nontrivial += 1;
                }
                acc.outcomes.insert(oks | (n.min(200) << 8));
                if n == 300 {
                    acc.sample(key + n, || json!({"variant": V::NAME, "stream": st.name(), "n": n, "ok_settings": oks}));
                }
            }
            Err(e) => {
                acc.fail(key + n, "generated-prefix", format!("{} {} n={n}: {e}", V::NAME, st.name()), json!({"kind": "prefix", "variant": V::NAME, "stream": st.name(), "n": n}));
                return;
            }
        }
        g.update(&[st.byte(n)]);
    }
}

pub fn run(r: &mut Report, ctx: &Ctx) {
    quiet_panics();
    let quick = ctx.quick();
    if !STRICT {
        r.notes.push("lenient build: the acceptance sweeps are judged with the lenient rules; the generated-hash validity sections still apply".into());
    }
    header_sweeps::<VShort>(r, ctx);
    header_sweeps::<VNormal>(r, ctx);
    header_sweeps::<VNormalLC>(r, ctx);
    header_sweeps::<VLong>(r, ctx);
    header_sweeps::<VLongLC>(r, ctx);
    binary_values::<VShort>(r, ctx);
    binary_values::<VNormal>(r, ctx);
    binary_values::<VNormalLC>(r, ctx);
    binary_values::<VLong>(r, ctx);
    binary_values::<VLongLC>(r, ctx);
    if ctx.want("dev1") || ctx.want("lengths") || ctx.want("dev2") {
        crate::checks::c05::enumerate::<VShort>(r, ctx, "C15");
        crate::checks::c05::enumerate::<VNormal>(r, ctx, "C15");
        if !quick {
            crate::checks::c05::enumerate::<VNormalLC>(r, ctx, "C15");
            crate::checks::c05::enumerate::<VLong>(r, ctx, "C15");
            crate::checks::c05::enumerate::<VLongLC>(r, ctx, "C15");
        }
    }
    #[cfg(fast_tlsh_verif)]
    if ctx.want("checksum-step-invariant") {
        r.section(
            "checksum-step-invariant",
            "inductive invariant on the complete one-step relation of the 48-bucket checksum: for every checksum pre-state 0..=255, every current byte and every previous byte, one real update(&[curr]) from an injected generator lands in 0..=48 (the initial state is 0, so the bound holds for inputs of any length); the 1-byte checksum of the 128/256-bucket variants and the first byte of 3-byte checksums are read back as well; distinct by enumeration; non-trivial = all",
            "256 states x 2^16 (curr, prev) (complete domain)",
            true,
            |s| {
                s.acc = par_for(65536, 64, |idx, acc| {
                    let prev = (idx % 256) as u8;
                    let state = (idx / 256) as u8;
                    let p = tlsh::verif::GeneratorParts { buckets: [1; 256], len: 100, checksum: [state, 0, 0], tail: [1, 2, 3, prev], tail_len: 4 };
                    let base = VShort::gen_from_parts(&p);
                    for curr in 0..=255u8 {
                        let mut g = base.clone();
                        g.update(&[curr]);
                        let c = VShort::gen_to_parts(&g).checksum[0];
                        acc.evals += 1;
                        acc.transitions += 1;
                        acc.nontrivial += 1;
                        if c > 48 || c != ref_bmap48(0, curr, prev, state) {
                            acc.fail(idx * 256 + curr as u64, "checksum-step-invariant", format!("Short checksum step from state {state} with (curr={curr}, prev={prev}) gives {c} (reference {}, bound 48)", ref_bmap48(0, curr, prev, state)), json!({"kind": "cstep", "state": state, "curr": curr, "prev": prev}));
                            return;
                        }
                        if prev == 0 {
                            acc.outcomes.insert(c as u64);
                        }
                    }
                    if idx % 4099 == 0 {
                        acc.sample(idx, || json!({"state": state, "prev": prev, "curr": "0..=255"}));
                    }
                });
            },
        );
    }
    if ctx.want("generated") {
        let top: u64 = if quick { 600 } else { 4096 };
        let streams = Stream::all(ctx.seed);
        r.section(
            "generated-prefix",
            "every Ok hash the real generator yields for every prefix length of five streams, every variant, all 32 option settings: checksum().is_valid(), length().is_valid(), checksum byte <= 48 on the 48-bucket variant, code < 170, and the hash survives a text and a binary round trip through the parser of this (strict) build; non-trivial = states with at least one Ok hash",
            &format!("n in 0..={top} x 6 streams x 5 variants x 32 options"),
            true,
            |s| {
                let streams = &streams;
                s.acc = par_for(5 * streams.len() as u64, 1, |idx, acc| {
                    let st = streams[(idx / 5) as usize];
                    let key = idx << 40;
                    match idx % 5 {
                        0 => generated::<VShort>(st, top, acc, key),
                        1 => generated::<VNormal>(st, top, acc, key),
                        2 => generated::<VNormalLC>(st, top, acc, key),
                        3 => generated::<VLong>(st, top, acc, key),
                        _ => generated::<VLongLC>(st, top, acc, key),
                    }
                });
            },
        );
        let alpha = [0x00u8, 0x41, 0x7f, 0xff];
        let maxlen = if quick { 7 } else { 9 };
        let count = short_string_count(4, maxlen);
        r.section(
            "generated-short",
            "as generated-prefix for every string over {00,41,7f,ff} up to the length bound (mostly reachable only with the permissive options)",
            &format!("{count} strings x 5 variants x 32 options"),
            true,
            |s| {
                s.acc = par_for(count * 5, 256, |idx, acc| {
                    let data = short_string(&alpha, idx / 5);
                    acc.evals += 1;
                    acc.transitions += 32;
                    fn go<V: Variant>(d: &[u8]) -> Result<u64, String> {
                        judge_generated_all::<V>(&fresh_fed::<V>(d))
                    }
                    let res = with_variant!(idx % 5, go(&data));
                    match res {
                        Ok(oks) => {
                            if oks > 0 {
                                acc.nontrivial += 1;
                            }
                            acc.outcomes.insert(oks);
                            if idx % 9973 == 0 {
                                acc.sample(idx, || json!({"variant": VARIANT_NAMES[(idx % 5) as usize], "data": hex(&data), "ok_settings": oks}));
                            }
                        }
                        Err(e) => acc.fail(idx, "generated-short", e, json!({"kind": "input", "variant": VARIANT_NAMES[(idx % 5) as usize], "data": hex(&data)})),
                    }
                });
            },
        );
        {
            // hashes generated from one large update at every power-of-two threshold (a bulk path must keep the checksum fold)
            let kmax: u32 = if quick { 20 } else { 24 };
            let ks: Vec<u32> = (5..=kmax).collect();
            let deltas: [i64; 3] = [-1, 0, 5];
            let prefills: [usize; 3] = [0, 3, 67];
            let total = (2 * ks.len() * deltas.len() * prefills.len() * 5) as u64;
            r.section(
                "generated-large-pieces",
                "as generated-prefix for inputs fed as: p bytes, ONE piece of 2^k + d bytes, then 3 bytes or nothing (k up to the bound, d in {-1,0,5}, p in {0,3,67}), every variant, all 32 options: every Ok hash is strict-valid and survives the round trips; non-trivial = inputs with at least one Ok hash",
                &format!("k in 5..={kmax} x 3 deltas x 3 pre-fills x 5 variants x 32 options"),
                true,
                |s| {
                    let ks = &ks;
                    s.acc = par_for(total, 1, |idx, acc| {
                        let v = (idx % 5) as usize;
                        let (i, with_suffix) = (idx / 10, (idx / 5) % 2 == 1);
                        let d = deltas[(i % 3) as usize];
                        let p = prefills[((i / 3) % 3) as usize];
                        let k = ks[ks.len() - 1 - (i / 9) as usize];
                        let piece = ((1i64 << k) + d) as usize;
                        let pieces_all = [p, piece, 3];
                        let pieces = &pieces_all[..if with_suffix { 3 } else { 2 }];
                        acc.evals += 1;
                        acc.transitions += 35;
                        fn go<V: Variant>(pieces: &[usize]) -> Result<u64, String> {
                            let data = Stream::Mixed.bytes(0, pieces.iter().sum());
                            let mut g = V::new_gen();
                            let mut off = 0;
                            for &p in pieces {
                                g.update(&data[off..off + p]);
                                off += p;
                            }
                            judge_generated_all::<V>(&g)
                        }
                        match with_variant!(v, go(pieces)) {
                            Ok(oks) => {
                                if oks > 0 {
                                    acc.nontrivial += 1;
                                }
                                acc.outcomes.insert(oks);
                                if idx % 97 == 0 {
                                    acc.sample(idx, || json!({"variant": VARIANT_NAMES[v], "pieces": pieces, "ok_settings": oks}));
                                }
                            }
                            Err(e) => acc.fail(idx, "generated-large-pieces", e, json!({"kind": "pieces", "variant": VARIANT_NAMES[v], "pieces": pieces})),
                        }
                    });
                },
            );
        }
        #[cfg(fast_tlsh_verif)]
        {
            use crate::refmodel::tables::TOPVAL;
            r.section(
                "generated-injected",
                "generator injected (hook) at lengths around every length-code boundary and MAX, with checksum pre-states 0..=48 (Short) / arbitrary (others): every Ok hash is strict-valid and survives strict round trips; non-trivial = all",
                "172 lengths x 5 variants x 4 checksum states x 32 options",
                true,
                |s| {
                    let mut ns: Vec<u32> = TOPVAL.iter().flat_map(|&t| [t, t.saturating_add(1)]).collect();
                    ns.push(0);
                    ns.push(9);
                    ns.sort();
                    ns.dedup();
                    let ns = &ns;
                    s.acc = par_for(ns.len() as u64 * 20, 16, |idx, acc| {
                        let n = ns[(idx / 20) as usize];
                        let v = (idx % 5) as usize;
                        let c = [0u8, 48, 17, 0xe3][((idx / 5) % 4) as usize];
                        fn go<V: Variant>(n: u32, c: u8) -> Result<u64, String> {
                            let mut p = tlsh::verif::GeneratorParts { buckets: [0; 256], len: 0, checksum: [c, c.wrapping_mul(3), c ^ 0x55], tail: [4, 3, 2, 1], tail_len: 0 };
                            if V::NB == 48 {
                                p.checksum[0] = c % 49;
                            }
                            for i in V::CK..3 {
                                p.checksum[i] = 0;
                            }
                            for i in 0..256 {
                                p.buckets[i] = (i as u32 * 2654435761u32) >> 20;
                            }
                            if n >= 4 {
                                p.len = n - 4;
                                p.tail_len = 4;
                            } else {
                                p.tail_len = n;
                            }
                            judge_generated_all::<V>(&V::gen_from_parts(&p))
                        }
                        acc.evals += 1;
                        acc.transitions += 32;
                        acc.nontrivial += 1;
                        let res = with_variant!(v, go(n, c));
                        match res {
                            Ok(oks) => {
                                acc.outcomes.insert(oks | (ref_length_code(n as u64).unwrap_or(255) as u64) << 8);
                                if idx % 501 == 0 {
                                    acc.sample(idx, || json!({"variant": VARIANT_NAMES[v], "n": n, "checksum_state": c, "ok_settings": oks}));
                                }
                            }
                            Err(e) => acc.fail(idx, "generated-injected", e, json!({"kind": "injected", "variant": VARIANT_NAMES[v], "n": n, "c": c})),
                        }
                    });
                },
            );
        }
    }
}

pub fn replay(case: &Value) -> Result<(), String> {
    quiet_panics();
    match case["kind"].as_str().unwrap_or("") {
        "header" => {
            let v = case["variant"].as_str().ok_or("variant")?;
            let b = unhex(case["bytes"].as_str().ok_or("bytes")?);
            fn go<V: Variant>(b: &[u8]) -> Result<(), String> {
                judge_strict_binary::<V>(b)?;
                judge_parse::<V>(&ref_hex_format(b, V::CK, true))?;
                judge_parse::<V>(&ref_hex_format(b, V::CK, false)).map(|_| ())
            }
            with_variant!(v, go(&b))
        }
        "parse" => crate::checks::c05::replay(case),
        "prefix" => {
            let v = case["variant"].as_str().ok_or("variant")?;
            let st = Stream::from_name(case["stream"].as_str().ok_or("stream")?).ok_or("stream")?;
            let n = case["n"].as_u64().ok_or("n")?;
            fn go<V: Variant>(st: Stream, n: u64) -> Result<(), String> {
                judge_generated_all::<V>(&fresh_fed::<V>(&st.bytes(0, n as usize))).map(|_| ())
            }
            with_variant!(v, go(st, n))
        }
        "input" => {
            let v = case["variant"].as_str().ok_or("variant")?;
            let d = unhex(case["data"].as_str().ok_or("data")?);
            fn go<V: Variant>(d: &[u8]) -> Result<(), String> {
                judge_generated_all::<V>(&fresh_fed::<V>(d)).map(|_| ())
            }
            with_variant!(v, go(&d))
        }
        "pieces" => {
            let v = case["variant"].as_str().ok_or("variant")?;
            let pieces: Vec<usize> = case["pieces"].as_array().ok_or("pieces")?.iter().map(|x| x.as_u64().unwrap() as usize).collect();
            fn go<V: Variant>(pieces: &[usize]) -> Result<(), String> {
                let data = Stream::Mixed.bytes(0, pieces.iter().sum());
                let mut g = V::new_gen();
                let mut off = 0;
                for &p in pieces {
                    g.update(&data[off..off + p]);
                    off += p;
                }
                judge_generated_all::<V>(&g).map(|_| ())
            }
            with_variant!(v, go(&pieces))
        }
        k => Err(format!("replay kind {k}: re-run the check")),
    }
}
