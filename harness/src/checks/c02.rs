//! C02 — distance between two hashes equals the TLSH reference distance.

use crate::checks::common::*;
use crate::refmodel::*;
use crate::report::*;
use crate::streams::splitmix64;
use crate::variant::*;
use crate::{with_variant, Ctx};
use serde_json::{json, Value};
use tlsh::{ComparisonConfiguration, FuzzyHashType};

pub fn mode_of(with_length: bool) -> ComparisonConfiguration {
    if with_length {
        ComparisonConfiguration::Default
    } else {
        ComparisonConfiguration::NoLength
    }
}

/// Background fills for bodies: 16 constant-fill pairs + two ramps.
pub fn backgrounds(len: usize) -> Vec<(Vec<u8>, Vec<u8>)> {
    let fills = [0x00u8, 0x55, 0xaa, 0xff];
    let mut v = Vec::new();
    for &a in &fills {
        for &b in &fills {
            v.push((vec![a; len], vec![b; len]));
        }
    }
    let ramp: Vec<u8> = (0..len).map(|i| (i * 37 + 11) as u8).collect();
    let ramp2: Vec<u8> = (0..len).map(|i| (splitmix64(i as u64) >> 40) as u8).collect();
    v.push((ramp.clone(), ramp2.clone()));
    v.push((ramp2, ramp.iter().map(|x| !x).collect()));
    v
}

/// Whole-hash judge through the public API, both modes.
pub fn judge_pair<V: Variant>(a: &[u8], b: &[u8]) -> Result<(u32, u32), String> {
    let ha = V::from_slice(a).map_err(|e| format!("try_from(a) failed: {e:?}"))?;
    let hb = V::from_slice(b).map_err(|e| format!("try_from(b) failed: {e:?}"))?;
    let mut out = [0u32; 2];
    for (i, with_length) in [true, false].into_iter().enumerate() {
        let real = ha.compare_with_config(&hb, mode_of(with_length));
        let expect = ref_distance(a, b, V::CK, with_length);
        if real != expect {
            return Err(format!(
                "{} compare_with_config({}) = {real} but reference = {expect} (a={} b={})",
                V::NAME, if with_length { "Default" } else { "NoLength" }, hex(a), hex(b)
            ));
        }
        out[i] = real;
    }
    if ha.compare(&hb) != out[0] {
        return Err(format!("{} compare() = {} differs from compare_with_config(Default) = {}", V::NAME, ha.compare(&hb), out[0]));
    }
    Ok((out[0], out[1]))
}

fn pair_json<V: Variant>(a: &[u8], b: &[u8]) -> Value {
    json!({"kind": "pair", "variant": V::NAME, "a": hex(a), "b": hex(b)})
}

#[cfg(fast_tlsh_verif)]
pub fn backends_for(len: usize) -> Vec<&'static str> {
    let probe_a = vec![0u8; len];
    tlsh::verif::body_distance::BACKENDS
        .iter()
        .copied()
        .filter(|b| catch(|| body_backend(len, b, &probe_a, &probe_a)).map(|r| r.is_some()).unwrap_or(true))
        .collect()
}

#[cfg(fast_tlsh_verif)]
pub fn body_backend(len: usize, backend: &str, a: &[u8], b: &[u8]) -> Option<u32> {
    match len {
        12 => VShort::body_distance(backend, a, b),
        32 => VNormal::body_distance(backend, a, b),
        64 => VLong::body_distance(backend, a, b),
        _ => None,
    }
}

#[cfg(fast_tlsh_verif)]
pub fn judge_body_backends(backends: &[&'static str], a: &[u8], b: &[u8]) -> Result<u32, String> {
    let expect = ref_dist_body(a, b);
    for be in backends {
        let real = catch(|| body_backend(a.len(), be, a, b))
            .map_err(|p| format!("body distance backend {be} ({} bytes) panicked: {p} (a={} b={})", a.len(), hex(a), hex(b)))?
            .ok_or_else(|| format!("backend {be} vanished"))?;
        if real != expect {
            return Err(format!("body distance backend {be} ({} bytes) = {real} but reference = {expect} (a={} b={})", a.len(), hex(a), hex(b)));
        }
    }
    Ok(expect)
}

/// Header sweeps via the public API.
fn header_sweep<V: Variant>(r: &mut Report, ctx: &Ctx) {
    let name = format!("header-{}", V::NAME);
    if !ctx.want(&name) {
        return;
    }
    r.section(
        &name,
        "hash pairs differing in exactly one header byte: all 2^16 value pairs for each checksum byte, the length code and the Q-ratio byte, 4 backgrounds for the other bytes, both modes, through compare_with_config; distinct by enumeration; non-trivial = pairs with different bytes",
        &format!("{} header bytes x 2^16 x 4 backgrounds x 2 modes", V::CK + 2),
        true,
        |s| {
            let hdr = V::CK + 2;
            s.acc = par_for((hdr as u64) * 4 * 256, 8, |idx, acc| {
                let x = (idx % 256) as u8;
                let bg = ((idx / 256) % 4) as usize;
                let pos = (idx / 1024) as usize;
                let fill = [0x00u8, 0xff, 0x5a, 0x24][bg];
                let mut a = vec![fill; V::SIZE];
                let mut b = vec![fill; V::SIZE];
                if bg == 3 {
                    for i in 0..V::SIZE {
                        a[i] = (i * 29 + 5) as u8;
                        b[i] = (i * 31 + 7) as u8;
                    }
                }
                for y in 0..=255u8 {
                    a[pos] = x;
                    b[pos] = y;
                    acc.evals += 1;
                    acc.transitions += 3;
                    if x != y {
                        acc.nontrivial += 1;
                    }
                    match judge_pair::<V>(&a, &b) {
                        Ok((d, _)) => {
                            if bg == 0 {
                                acc.outcomes.insert(d as u64 | (pos as u64) << 32);
                            }
                        }
                        Err(e) => {
                            acc.fail(idx * 256 + y as u64, &name, e, pair_json::<V>(&a, &b));
                            return;
                        }
                    }
                }
                if x == 3 {
                    acc.sample(idx, || json!({"variant": V::NAME, "header_byte": pos, "x": x, "y": "0..=255", "background": bg}));
                }
            });
        },
    );
}

/// Composition: product of small part-pair alphabets.
fn composition<V: Variant>(r: &mut Report, ctx: &Ctx) {
    let name = format!("composition-{}", V::NAME);
    if !ctx.want(&name) {
        return;
    }
    r.section(
        &name,
        "compare_with_config on the product of part-pair alphabets (checksum x length x Q-ratio x body pairs, both modes) equals the sum of the reference part distances; NoLength drops exactly the length term; non-trivial = pairs where all four parts differ",
        "4 checksum x 7 length x 7 Q-ratio x 9 body pairs x 2 modes",
        true,
        |s| {
            let ck_pairs: Vec<(Vec<u8>, Vec<u8>)> = vec![
                (vec![0; V::CK], vec![0; V::CK]),
                (vec![0x12; V::CK], vec![0x13; V::CK]),
                ((0..V::CK).map(|i| i as u8).collect(), (0..V::CK).map(|i| if i == 1 { 9 } else { i as u8 }).collect()),
                (vec![0xff; V::CK], (0..V::CK).map(|i| if i == 0 { 0xff } else { 0 }).collect()),
            ];
            let len_pairs = [(0u8, 0u8), (0, 1), (1, 0), (0, 255), (10, 138), (200, 71), (169, 170)];
            let q_pairs = [(0u8, 0u8), (0x01, 0x00), (0x0f, 0x00), (0x80, 0x08), (0x88, 0x00), (0x7f, 0xf7), (0x29, 0x92)];
            let bgs = backgrounds(V::BODY);
            let body_pairs: Vec<&(Vec<u8>, Vec<u8>)> = [0usize, 3, 5, 6, 9, 12, 15, 16, 17].iter().map(|&i| &bgs[i]).collect();
            for (ca, cb) in &ck_pairs {
                for &(la, lb) in &len_pairs {
                    for &(qa, qb) in &q_pairs {
                        for (ba, bb) in &body_pairs {
                            let mut a = ca.clone();
                            a.push(la);
                            a.push(qa);
                            a.extend_from_slice(ba);
                            let mut b = cb.clone();
                            b.push(lb);
                            b.push(qb);
                            b.extend_from_slice(bb);
                            s.acc.evals += 1;
                            s.acc.transitions += 3;
                            if ca != cb && la != lb && qa != qb && ba != bb {
                                s.acc.nontrivial += 1;
                            }
                            match judge_pair::<V>(&a, &b) {
                                Ok((d, dn)) => {
                                    s.acc.outcomes.insert(d as u64 | (dn as u64) << 32);
                                    let key = s.acc.evals;
                                    s.acc.sample(key, || json!({"variant": V::NAME, "a": hex(&a), "b": hex(&b), "default": d, "no_length": dn}));
                                }
                                Err(e) => {
                                    let key = s.acc.evals;
                                    s.acc.fail(key, &name, e, pair_json::<V>(&a, &b));
                                    return;
                                }
                            }
                        }
                    }
                }
            }
        },
    );
}

/// Body sweeps through the public API only (for configurations without hooks):
/// one-byte windows.
fn body_public<V: Variant>(r: &mut Report, ctx: &Ctx, quick: bool) {
    let name = format!("body-w1-public-{}", V::NAME);
    if !ctx.want(&name) {
        return;
    }
    let bgs = backgrounds(V::BODY);
    let nbg = if quick { 6 } else { bgs.len() };
    r.section(
        &name,
        "body pairs that deviate from a background pair in one byte position: all 2^16 (x,y) at every position, through compare_with_config (the configured/dispatched backend); non-trivial = x != y",
        &format!("{} positions x 2^16 x {nbg} backgrounds", V::BODY),
        true,
        |s| {
            let bgs = &bgs;
            s.acc = par_for((V::BODY * nbg * 256) as u64, 8, |idx, acc| {
                let x = (idx % 256) as u8;
                let bg = ((idx / 256) as usize) % nbg;
                let pos = (idx / 256) as usize / nbg;
                let bgi = [0usize, 5, 10, 15, 16, 17, 1, 2, 3, 4, 6, 7, 8, 9, 11, 12, 13, 14][bg];
                let mut a = vec![0u8; V::SIZE];
                let mut b = vec![0u8; V::SIZE];
                a[V::CK + 2..].copy_from_slice(&bgs[bgi].0);
                b[V::CK + 2..].copy_from_slice(&bgs[bgi].1);
                for y in 0..=255u8 {
                    a[V::CK + 2 + pos] = x;
                    b[V::CK + 2 + pos] = y;
                    acc.evals += 1;
                    acc.transitions += 3;
                    if x != y {
                        acc.nontrivial += 1;
                    }
                    match judge_pair::<V>(&a, &b) {
                        Ok((d, _)) => {
                            if pos == 0 {
                                acc.outcomes.insert(d as u64);
                            }
                        }
                        Err(e) => {
                            acc.fail(idx * 256 + y as u64, &name, e, pair_json::<V>(&a, &b));
                            return;
                        }
                    }
                }
                if x == 0x1b && bg == 0 {
                    acc.sample(idx, || json!({"variant": V::NAME, "body_byte": pos, "x": x, "y": "0..=255", "background": bgi}));
                }
            });
        },
    );
}

pub fn run(r: &mut Report, ctx: &Ctx) {
    quiet_panics();
    let quick = ctx.quick();
    if cfg!(feature = "strict-parser") {
        r.notes.push("strict-parser build: header values are restricted; C02 is meant for lenient builds".into());
    }
    header_sweep::<VShort>(r, ctx);
    header_sweep::<VNormal>(r, ctx);
    header_sweep::<VNormalLC>(r, ctx);
    header_sweep::<VLong>(r, ctx);
    header_sweep::<VLongLC>(r, ctx);
    composition::<VShort>(r, ctx);
    composition::<VNormal>(r, ctx);
    composition::<VNormalLC>(r, ctx);
    composition::<VLong>(r, ctx);
    composition::<VLongLC>(r, ctx);
    body_public::<VShort>(r, ctx, quick);
    body_public::<VNormal>(r, ctx, quick);
    body_public::<VLong>(r, ctx, quick);
    if !quick {
        body_public::<VNormalLC>(r, ctx, true);
        body_public::<VLongLC>(r, ctx, true);
    }

    #[cfg(fast_tlsh_verif)]
    for len in [12usize, 32, 64] {
        let backends = backends_for(len);
        let bgs = backgrounds(len);
        let nb = backends.len();
        if ctx.want("body-w1") {
            r.section(
                &format!("body-w1-{len}"),
                "every compiled body backend driven directly (hook): all 2^16 (x,y) in one byte position x 18 background pairs x every position; reference = per-dibit |x-y| with 3->6; non-trivial = x != y; evaluations count (case x backend)",
                &format!("{len} positions x 2^16 x 18 backgrounds x backends {:?}", backends),
                true,
                |s| {
                    let bgs = &bgs;
                    let backends = &backends;
                    s.acc = par_for((len * 18 * 256) as u64, 8, |idx, acc| {
                        let x = (idx % 256) as u8;
                        let bg = ((idx / 256) % 18) as usize;
                        let pos = (idx / 256 / 18) as usize;
                        let mut a = bgs[bg].0.clone();
                        let mut b = bgs[bg].1.clone();
                        for y in 0..=255u8 {
                            a[pos] = x;
                            b[pos] = y;
                            acc.evals += nb as u64;
                            acc.transitions += nb as u64;
                            if x != y {
                                acc.nontrivial += 1;
                            }
                            match judge_body_backends(backends, &a, &b) {
                                Ok(d) => {
                                    if pos == 0 {
                                        acc.outcomes.insert(d as u64);
                                    }
                                }
                                Err(e) => {
                                    acc.fail(idx * 256 + y as u64, "body-w1", e, json!({"kind": "body", "a": hex(&a), "b": hex(&b)}));
                                    return;
                                }
                            }
                        }
                        if x == 0x1b && bg == 16 {
                            acc.sample(idx, || json!({"len": len, "pos": pos, "x": x, "y": "0..=255", "background": bg}));
                        }
                    });
                    s.extra.insert("backends".into(), json!(backends));
                },
            );
        }
        if ctx.want("body-w2") {
            r.section(
                &format!("body-w2-{len}"),
                "windows straddling a byte boundary (high nibble of byte p, low nibble of byte p+1 on both sides: 2^16 combinations) x 18 backgrounds x every boundary, every compiled backend; non-trivial = window differs",
                &format!("{} boundaries x 2^16 x 18 backgrounds x backends {:?}", len - 1, backends),
                true,
                |s| {
                    let bgs = &bgs;
                    let backends = &backends;
                    s.acc = par_for(((len - 1) * 18 * 256) as u64, 8, |idx, acc| {
                        let wx = (idx % 256) as u8; // a's window: high nibble of a[p], low nibble of a[p+1]
                        let bg = ((idx / 256) % 18) as usize;
                        let pos = (idx / 256 / 18) as usize;
                        let mut a = bgs[bg].0.clone();
                        let mut b = bgs[bg].1.clone();
                        a[pos] = (a[pos] & 0x0f) | (wx & 0xf0);
                        a[pos + 1] = (a[pos + 1] & 0xf0) | (wx & 0x0f);
                        let (b0, b1) = (b[pos], b[pos + 1]);
                        for wy in 0..=255u8 {
                            b[pos] = (b0 & 0x0f) | (wy & 0xf0);
                            b[pos + 1] = (b1 & 0xf0) | (wy & 0x0f);
                            acc.evals += nb as u64;
                            acc.transitions += nb as u64;
                            if wx != wy {
                                acc.nontrivial += 1;
                            }
                            match judge_body_backends(backends, &a, &b) {
                                Ok(d) => {
                                    if pos == 0 {
                                        acc.outcomes.insert(d as u64);
                                    }
                                }
                                Err(e) => {
                                    acc.fail(idx * 256 + wy as u64, "body-w2", e, json!({"kind": "body", "a": hex(&a), "b": hex(&b)}));
                                    return;
                                }
                            }
                        }
                        if wx == 0x93 && bg == 17 {
                            acc.sample(idx, || json!({"len": len, "boundary": [pos, pos + 1], "wx": wx, "wy": "0..=255", "background": bg}));
                        }
                    });
                },
            );
        }
        if ctx.want("body-pairs") {
            r.section(
                &format!("body-pairs-{len}"),
                "two independent one-byte windows: every pair of byte positions (p1 < p2) x all (x1,y1,x2,y2) over the dibit-pattern alphabet {00,55,aa,ff,1b,e4} x 3 backgrounds, every compiled backend (cross-lane / cross-vector interactions and horizontal sums with two hot spots); non-trivial = all",
                &format!("C({len},2) position pairs x 6^4 x 3 backgrounds x backends {:?}", backends),
                true,
                |s| {
                    let bgs = &bgs;
                    let backends = &backends;
                    let alpha = [0x00u8, 0x55, 0xaa, 0xff, 0x1b, 0xe4];
                    let npairs = (len * (len - 1) / 2) as u64;
                    s.acc = par_for(npairs * 3, 4, |idx, acc| {
                        let bg = [0usize, 16, 9][(idx % 3) as usize];
                        // decode pair index
                        let mut k = idx / 3;
                        let mut p1 = 0usize;
                        while k >= (len - 1 - p1) as u64 {
                            k -= (len - 1 - p1) as u64;
                            p1 += 1;
                        }
                        let p2 = p1 + 1 + k as usize;
                        let mut a = bgs[bg].0.clone();
                        let mut b = bgs[bg].1.clone();
                        for c in 0..1296usize {
                            a[p1] = alpha[c % 6];
                            b[p1] = alpha[(c / 6) % 6];
                            a[p2] = alpha[(c / 36) % 6];
                            b[p2] = alpha[(c / 216) % 6];
                            acc.evals += nb as u64;
                            acc.transitions += nb as u64;
                            acc.nontrivial += 1;
                            match judge_body_backends(backends, &a, &b) {
                                Ok(d) => {
                                    if p1 == 0 && p2 == len - 1 {
                                        acc.outcomes.insert(d as u64);
                                    }
                                }
                                Err(e) => {
                                    acc.fail(idx * 1296 + c as u64, "body-pairs", e, json!({"kind": "body", "a": hex(&a), "b": hex(&b)}));
                                    return;
                                }
                            }
                        }
                        if p1 == 3 && p2 == 8 {
                            acc.sample(idx, || json!({"len": len, "positions": [p1, p2], "alphabet": "00,55,aa,ff,1b,e4", "background": bg}));
                        }
                    });
                },
            );
        }
        if ctx.want("body-triples") {
            let words = len / 4; // 4-byte words (the finest lane of every kernel is 32 bits wide or wider)
            r.section(
                &format!("body-triples-{len}"),
                "three cooperating bytes: every triple of byte positions inside each aligned 8-byte group (and across the two halves of each 16-byte group via one extra spread triple per group) x all (x,y) patterns from {00,ff,1b,e4,55}^6 on 2 backgrounds, every compiled backend; non-trivial = all",
                &format!("C(8,3) triples x {} groups x 5^6 x 2 backgrounds x backends {:?}", (len + 7) / 8, backends),
                true,
                |s| {
                    let _ = words;
                    let bgs = &bgs;
                    let backends = &backends;
                    let alpha = [0x00u8, 0xff, 0x1b, 0xe4, 0x55];
                    // all triples within each aligned 8-byte group
                    let mut triples: Vec<[usize; 3]> = Vec::new();
                    let groups = (len + 7) / 8;
                    for g in 0..groups {
                        let base = g * 8;
                        let top = (base + 8).min(len);
                        for a in base..top {
                            for b in a + 1..top {
                                for c in b + 1..top {
                                    triples.push([a, b, c]);
                                }
                            }
                        }
                    }
                    // spread triples: one byte in each of three different 4-byte lanes, stepping through the body
                    for st in 0..len.saturating_sub(9) {
                        triples.push([st, st + 5, (st + 9).min(len - 1)]);
                        triples.push([st, (st + 17).min(len - 2), len - 1]);
                    }
                    triples.retain(|t| t[0] < t[1] && t[1] < t[2]);
                    let triples = &triples;
                    s.acc = par_for(triples.len() as u64 * 2, 2, |idx, acc| {
                        let t = triples[(idx / 2) as usize];
                        let bg = [0usize, 17][(idx % 2) as usize];
                        let mut a = bgs[bg].0.clone();
                        let mut b = bgs[bg].1.clone();
                        for c in 0..15625usize {
                            let mut k = c;
                            for pos in t {
                                a[pos] = alpha[k % 5];
                                k /= 5;
                                b[pos] = alpha[k % 5];
                                k /= 5;
                            }
                            acc.evals += nb as u64;
                            acc.transitions += nb as u64;
                            acc.nontrivial += 1;
                            match judge_body_backends(backends, &a, &b) {
                                Ok(d) => {
                                    if idx == 0 {
                                        acc.outcomes.insert(d as u64);
                                    }
                                }
                                Err(e) => {
                                    acc.fail(idx * 15625 + c as u64, "body-triples", e, json!({"kind": "body", "a": hex(&a), "b": hex(&b)}));
                                    return;
                                }
                            }
                        }
                        if idx % 97 == 0 {
                            acc.sample(idx, || json!({"len": len, "positions": t, "alphabet": "00,ff,1b,e4,55", "background": bg}));
                        }
                    });
                },
            );
        }
        if ctx.want("body-fill") {
            r.section(
                &format!("body-fill-{len}"),
                "whole bodies: all 2^16 (constant-fill x, constant-fill y), every compiled backend (exercises every lane and the horizontal sums at maximum values); non-trivial = x != y",
                &format!("2^16 x backends {:?}", backends),
                true,
                |s| {
                    let backends = &backends;
                    s.acc = par_for(65536, 256, |idx, acc| {
                        let a = vec![(idx >> 8) as u8; len];
                        let b = vec![idx as u8; len];
                        acc.evals += nb as u64;
                        acc.transitions += nb as u64;
                        if a != b {
                            acc.nontrivial += 1;
                        }
                        match judge_body_backends(backends, &a, &b) {
                            Ok(d) => {
                                acc.outcomes.insert(d as u64);
                                if idx == 0x00ff {
                                    acc.sample(idx, || json!({"len": len, "x_fill": 0, "y_fill": 255, "distance": d}));
                                }
                            }
                            Err(e) => acc.fail(idx, "body-fill", e, json!({"kind": "body", "a": hex(&a), "b": hex(&b)})),
                        }
                    });
                },
            );
        }
        if ctx.want("body-w3") && !quick {
            let windows: Vec<usize> = [0usize, 3, 7, 15, 31].into_iter().filter(|&p| p + 1 < len).collect();
            r.section(
                &format!("body-w3-{len}"),
                "two whole adjacent bytes on both sides, all 2^32 (x0,x1,y0,y1), at every structural boundary (inside a lane, u32 lane, u64 word, 128-bit vector, 256-bit vector), 2 backgrounds, every compiled backend; non-trivial = windows differ",
                &format!("windows at byte {:?} x 2^32 x 2 backgrounds x backends {:?}", windows, backends),
                true,
                |s| {
                    let bgs = &bgs;
                    let backends = &backends;
                    let windows = &windows;
                    let nw = windows.len() as u64;
                    s.acc = par_for(nw * 2 * 65536, 16, |idx, acc| {
                        let x01 = (idx % 65536) as u16;
                        let bg = [16usize, 5][((idx / 65536) % 2) as usize];
                        let pos = windows[(idx / 65536 / 2) as usize];
                        let mut a = bgs[bg].0.clone();
                        let mut b = bgs[bg].1.clone();
                        a[pos] = (x01 >> 8) as u8;
                        a[pos + 1] = x01 as u8;
                        // the reference distance is a sum over dibits, hence over bytes: the part outside
                        // the window is computed once, the window's two bytes are added per case
                        b[pos] = 0;
                        b[pos + 1] = 0;
                        let outside = ref_dist_body(&a, &b) - ref_dist_body(&a[pos..pos + 2], &b[pos..pos + 2]);
                        for y01 in 0..=65535u16 {
                            b[pos] = (y01 >> 8) as u8;
                            b[pos + 1] = y01 as u8;
                            let expect = outside + ref_dist_body(&a[pos..pos + 2], &b[pos..pos + 2]);
                            for be in backends.iter() {
                                let real = body_backend(len, be, &a, &b);
                                if real != Some(expect) {
                                    acc.fail(idx * 65536 + y01 as u64, "body-w3", format!("body distance backend {be} ({len} bytes) = {real:?} but reference = {expect} (a={} b={})", hex(&a), hex(&b)), json!({"kind": "body", "a": hex(&a), "b": hex(&b)}));
                                    return;
                                }
                            }
                        }
                        acc.evals += 65536 * nb as u64;
                        acc.transitions += 65536 * nb as u64;
                        acc.nontrivial += 65535;
                        if x01 == 0x1be4 {
                            acc.outcomes.insert(idx);
                            acc.sample(idx, || json!({"len": len, "window": [pos, pos + 1], "x": x01, "y": "0..=65535", "background": bg}));
                        }
                    });
                },
            );
        }
    }
    crate::seq::section(r, ctx, "compare");
}

fn replay_pair<V: Variant>(a: &[u8], b: &[u8]) -> Result<(), String> {
    judge_pair::<V>(a, b).map(|(d, dn)| println!("default={d} no_length={dn} (agree with reference)"))
}

pub fn replay(case: &Value) -> Result<(), String> {
    match case["kind"].as_str().unwrap_or("") {
        "pair" => {
            let a = unhex(case["a"].as_str().ok_or("a")?);
            let b = unhex(case["b"].as_str().ok_or("b")?);
            let v = case["variant"].as_str().ok_or("variant")?;
            with_variant!(v, replay_pair(&a, &b))
        }
        #[cfg(fast_tlsh_verif)]
        "body" => {
            let a = unhex(case["a"].as_str().ok_or("a")?);
            let b = unhex(case["b"].as_str().ok_or("b")?);
            let backends = backends_for(a.len());
            for be in &backends {
                println!("backend {be}: {:?} reference {}", body_backend(a.len(), be, &a, &b), ref_dist_body(&a, &b));
            }
            judge_body_backends(&backends, &a, &b).map(|_| ())
        }
        k => Err(format!("unknown replay kind {k}")),
    }
}
