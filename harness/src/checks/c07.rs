//! C07 — results do not depend on feature configuration, SIMD backend or first-caller thread.

use crate::checks::c01::{compositions, place_buckets, qratio_alphabet, VALUE_ALPHABETS};
use crate::checks::common::*;
use crate::report::*;
use crate::transcript;
use crate::variant::*;
use crate::Ctx;
use serde_json::{json, Value};

#[cfg(fast_tlsh_verif)]
fn ref_body(nb: usize, buckets: &[u32], q1: u32, q2: u32, q3: u32) -> Vec<u8> {
    let blen = nb / 4;
    let mut body = vec![0u8; blen];
    for i in 0..nb {
        let v = buckets[i];
        let d: u8 = if v > q3 { 3 } else if v > q2 { 2 } else if v > q1 { 1 } else { 0 };
        body[blen - 1 - i / 4] |= d << (2 * (i % 4));
    }
    body
}

#[cfg(fast_tlsh_verif)]
fn aggregate_dyn(nb: usize, backend: &str, buckets: &[u32], q1: u32, q2: u32, q3: u32) -> Option<Vec<u8>> {
    match nb {
        48 => VShort::aggregate(backend, buckets, q1, q2, q3),
        128 => VNormal::aggregate(backend, buckets, q1, q2, q3),
        _ => VLong::aggregate(backend, buckets, q1, q2, q3),
    }
}

#[cfg(fast_tlsh_verif)]
pub fn agg_backends(nb: usize) -> Vec<&'static str> {
    let b = vec![1u32; 256];
    // a backend that panics on the probe exists: it stays in the list so that the judged calls report the panic
    tlsh::verif::bucket_aggregation::BACKENDS.iter().copied().filter(|be| catch(|| aggregate_dyn(nb, be, &b, 0, 0, 0)).map(|r| r.is_some()).unwrap_or(true)).collect()
}

#[cfg(fast_tlsh_verif)]
pub fn judge_agg(nb: usize, backends: &[&'static str], buckets: &[u32], q1: u32, q2: u32, q3: u32) -> Result<u64, String> {
    let expect = ref_body(nb, buckets, q1, q2, q3);
    for be in backends {
        let got = catch(|| aggregate_dyn(nb, be, buckets, q1, q2, q3)).map_err(|p| format!("aggregation backend {be} panicked: {p}"))?;
        if got.as_deref() != Some(expect.as_slice()) {
            return Err(format!("aggregation backend {be} ({nb} buckets, q=({q1},{q2},{q3})) = {} but reference = {}", got.map(|g| hex(&g)).unwrap_or_default(), hex(&expect)));
        }
    }
    Ok(crate::report::fnv(&expect))
}

pub fn run(r: &mut Report, ctx: &Ctx) {
    quiet_panics();
    let quick = ctx.quick();
    let _ = quick;

    if ctx.want("transcript") {
        r.section(
            "transcript",
            "public-API transcript of this build configuration: 13 fixed enumerations (generation of all short inputs / all prefixes byte-by-byte / KAT inputs / all 2-cut splits with a clone, formatting, one-deviation parsing in 3 modes, binary conversion + accessors, header and body distance sweeps, pool distances, buffer stores, string comparison pairs, length codes), one record per call; the driver requires identical block digests from every configuration of the matrix; records = evaluations; non-trivial = records",
            "13 sections, 64 block digests each; the configuration list is configs/matrix.json",
            true,
            |s| {
                let mut digests = serde_json::Map::new();
                for name in transcript::SECTIONS {
                    let total = transcript::section_len(name);
                    let collected = std::sync::Mutex::new(Vec::new());
                    let acc = par_for(transcript::BLOCKS, 1, |b, acc| {
                        let d = transcript::block_digest(name, b);
                        collected.lock().unwrap().push((b, json!(format!("{d:016x}"))));
                        acc.outcomes.insert(d);
                    });
                    let mut list: Vec<(u64, Value)> = collected.into_inner().unwrap();
                    list.sort_by_key(|(k, _)| *k);
                    assert_eq!(list.len() as u64, transcript::BLOCKS, "all block digests present");
                    digests.insert(name.to_string(), Value::Array(list.into_iter().map(|(_, v)| v).collect()));
                    s.acc.evals += total;
                    s.acc.transitions += total;
                    s.acc.nontrivial += total;
                    s.acc.outcomes.merge(&acc.outcomes);
                }
                s.acc.sample(0, || json!({"section": "fmt", "record_0": hex(&transcript::record("fmt", 0))}));
                s.acc.sample(1, || json!({"section": "gen-short", "record_700": hex(&transcript::record("gen-short", 700))}));
                s.extra.insert("digests".into(), Value::Object(digests));
            },
        );
    }

    #[cfg(fast_tlsh_verif)]
    {
        if ctx.want("agg-backends") {
            for nb in [48usize, 128, 256] {
                if !ctx.want(&format!("agg-backends-shapes-{nb}")) {
                    continue;
                }
                let backends = agg_backends(nb);
                let comps = compositions(nb, 3);
                let ncomp = comps.len() as u64;
                r.section(
                    &format!("agg-backends-shapes-{nb}"),
                    "every compiled bucket-aggregation backend (dispatch, naive, SSE2, SSSE3, AVX2) driven directly (hook) on every 3-class composition x 6 value alphabets (incl. >= 2^31 where the signed-compare trick matters, and 2^32-1) x 3 placements, with the exact quartiles of the array and with shifted cut points; reference = three comparisons per bucket; evaluations count (case x backend); non-trivial = all",
                    &format!("{ncomp} compositions x 6 alphabets x 3 placements x 2 cut-point choices x backends {:?}", backends),
                    true,
                    |s| {
                        let comps = &comps;
                        let backends = &backends;
                        s.acc = par_for(ncomp * 36, 64, |idx, acc| {
                            let comp = &comps[(idx / 36) as usize];
                            let a = ((idx % 36) / 6) as usize;
                            let pl = ((idx % 6) / 2) as usize;
                            let shifted = idx % 2 == 1;
                            let buckets = place_buckets(nb, comp, &VALUE_ALPHABETS[a][..3], pl);
                            let mut sorted = buckets[..nb].to_vec();
                            sorted.sort();
                            let (mut q1, mut q2, mut q3) = (sorted[nb / 4 - 1], sorted[nb / 2 - 1], sorted[3 * nb / 4 - 1]);
                            if shifted {
                                // any q1 <= q2 <= q3 is a legal argument
                                q1 = q1.saturating_sub(1);
                                q3 = q3.saturating_add(1);
                                q2 = q2.max(q1).min(q3);
                            }
                            acc.evals += backends.len() as u64;
                            acc.transitions += backends.len() as u64;
                            acc.nontrivial += 1;
                            match judge_agg(nb, backends, &buckets, q1, q2, q3) {
                                Ok(fp) => {
                                    acc.outcomes.insert(fp);
                                    if idx % 3001 == 0 {
                                        acc.sample(idx, || json!({"buckets": nb, "composition": comp, "values": &VALUE_ALPHABETS[a][..3], "placement": pl, "q": [q1, q2, q3]}));
                                    }
                                }
                                Err(e) => acc.fail(idx, "agg-backends", e, json!({"kind": "agg", "key": "agg-backend", "nb": nb, "buckets": buckets[..nb].to_vec(), "q": [q1, q2, q3]})),
                            }
                        });
                        s.extra.insert("backends".into(), json!(backends));
                    },
                );
            }
            // per-lane sweeps
            let backends = agg_backends(128);
            let qa: Vec<u32> = vec![0, 1, 2, (1 << 31) - 1, 1 << 31, (1u32 << 31) + 1, u32::MAX - 1, u32::MAX];
            let mut triples = Vec::new();
            for i in 0..qa.len() {
                for j in i..qa.len() {
                    for k in j..qa.len() {
                        triples.push((qa[i], qa[j], qa[k]));
                    }
                }
            }
            if ctx.want("agg-backends-lanes") {
            r.section(
                "agg-backends-lanes",
                "per-lane sweep of every aggregation backend: (q1<=q2<=q3) over the 2^31-boundary alphabet {0,1,2,2^31-1,2^31,2^31+1,2^32-2,2^32-1}; for each triple every lane of an 8-lane group takes every value of {q1-1,q1,q1+1,q2,q2+1,q3,q3+1,0,2^32-1} while the other lanes hold a rotating background; plus all 4^4 class patterns of a 4-lane group (thorough: all 4^8 of an 8-lane group); non-trivial = all",
                &format!("{} triples x (8 lanes x 9 values + 256 patterns) x backends {:?}", triples.len(), backends),
                true,
                |s| {
                    let triples = &triples;
                    let backends = &backends;
                    let patterns: u64 = if quick { 256 } else { 65536 };
                    s.acc = par_for(triples.len() as u64, 1, |ti, acc| {
                        let (q1, q2, q3) = triples[ti as usize];
                        let vals = [q1.wrapping_sub(1), q1, q1.wrapping_add(1), q2, q2.wrapping_add(1), q3, q3.wrapping_add(1), 0, u32::MAX];
                        let class_vals = [q1, q2.max(q1.saturating_add(1)).min(q2), q3, u32::MAX];
                        let mut run = |buckets: &[u32; 256], key: u64| -> bool {
                            acc.evals += backends.len() as u64;
                            acc.transitions += backends.len() as u64;
                            acc.nontrivial += 1;
                            match judge_agg(128, backends, buckets, q1, q2, q3) {
                                Ok(fp) => {
                                    acc.outcomes.insert(fp);
                                    true
                                }
                                Err(e) => {
                                    acc.fail(ti * 1_000_000 + key, "agg-backends-lanes", e, json!({"kind": "agg", "key": "agg-backend", "nb": 128, "buckets": buckets[..128].to_vec(), "q": [q1, q2, q3]}));
                                    false
                                }
                            }
                        };
                        for lane in 0..8usize {
                            for (vi, &v) in vals.iter().enumerate() {
                                let mut b = [0u32; 256];
                                for i in 0..128 {
                                    b[i] = vals[(i + lane + vi) % 9];
                                }
                                for g in 0..16 {
                                    b[g * 8 + lane] = v;
                                }
                                if !run(&b, (lane * 9 + vi) as u64) {
                                    return;
                                }
                            }
                        }
                        // class patterns of the values relative to the cut points: <=q1, (q1,q2], (q2,q3], >q3
                        let cls = |c: u64| -> u32 {
                            match c {
                                0 => q1,
                                1 => q2,
                                2 => q3,
                                _ => class_vals[3],
                            }
                        };
                        for p in 0..patterns {
                            let mut b = [0u32; 256];
                            let lanes = if patterns == 256 { 4 } else { 8 };
                            for i in 0..128 {
                                b[i] = cls((p >> (2 * (i % lanes))) & 3);
                            }
                            if !run(&b, 1000 + p) {
                                return;
                            }
                        }
                        if ti % 17 == 0 {
                            acc.sample(ti, || json!({"q": [q1, q2, q3], "lane_values": vals}));
                        }
                    });
                },
            );
            }
            // buckets just below / at / above each quartile, for every quartile value of the boundary alphabet
            if ctx.want("agg-backends-thresholds") {
                let alpha = qratio_alphabet();
                r.section(
                    "agg-backends-thresholds",
                    "every aggregation backend with quartiles taken from the boundary alphabet (every power of two and its neighbours, the Q-ratio boundaries) in 4 layouts ((q,q,q), (q-1,q,q+1), (q,q+1,q+2), (q/2,q,2q)) and buckets {q-1, q, q+1, q+2, 0, u32::MAX, q/2, 2q, 2^31} rotated through all lanes: a kernel that narrows, saturates or compares signed goes wrong exactly when a quartile sits on such a boundary and a bucket lies just beyond it; non-trivial = all",
                    &format!("{} quartile values x 4 layouts x 9 rotations x 3 bucket counts", alpha.len()),
                    true,
                    |s| {
                        let alpha = &alpha;
                        let n = alpha.len() as u64;
                        let bes: Vec<Vec<&'static str>> = [48usize, 128, 256].iter().map(|&nb| agg_backends(nb)).collect();
                        let bes = &bes;
                        s.acc = par_for(n * 4 * 9 * 3, 64, |idx, acc| {
                            let (nb, bi) = [(48usize, 0usize), (128, 1), (256, 2)][(idx % 3) as usize];
                            let rot = ((idx / 3) % 9) as usize;
                            let layout = (idx / 27) % 4;
                            let q = alpha[(idx / 108) as usize];
                            let (q1, q2, q3) = match layout {
                                0 => (q, q, q),
                                1 => (q.saturating_sub(1), q, q.saturating_add(1)),
                                2 => (q, q.saturating_add(1), q.saturating_add(2)),
                                _ => (q / 2, q, q.saturating_mul(2)),
                            };
                            let vals = [q.saturating_sub(1), q, q.saturating_add(1), q.saturating_add(2), 0, u32::MAX, q / 2, q.saturating_mul(2), 1u32 << 31];
                            let mut b = [0u32; 256];
                            for i in 0..nb {
                                b[i] = vals[(i + rot) % vals.len()];
                            }
                            acc.evals += bes[bi].len() as u64;
                            acc.transitions += bes[bi].len() as u64;
                            acc.nontrivial += 1;
                            match judge_agg(nb, &bes[bi], &b, q1, q2, q3) {
                                Ok(fp) => {
                                    acc.outcomes.insert(fp);
                                    if idx % 4001 == 0 {
                                        acc.sample(idx, || json!({"buckets": nb, "q": [q1, q2, q3], "rotation": rot}));
                                    }
                                }
                                Err(e) => acc.fail(idx, "agg-backends-thresholds", e, json!({"kind": "agg", "key": "agg-backend", "nb": nb, "buckets": b[..nb].to_vec(), "q": [q1, q2, q3]})),
                            }
                        });
                    },
                );
            }
            // Q-ratio alphabet quartiles through every backend (ties the aggregation to C01f's states)
            let alpha = qratio_alphabet();
            if ctx.want("agg-backends-qalpha") {
            r.section(
                "agg-backends-qalpha",
                "every aggregation backend on bucket arrays built from all pairs (x, y) of the Q-ratio boundary alphabet alternating across lanes with cut points (min, mid, max); non-trivial = all",
                &format!("{}^2 pairs x 3 bucket counts", alpha.len()),
                true,
                |s| {
                    let alpha = &alpha;
                    let n = alpha.len() as u64;
                    let bes: Vec<Vec<&'static str>> = [48usize, 128, 256].iter().map(|&nb| agg_backends(nb)).collect();
                    let bes = &bes;
                    s.acc = par_for(n * n * 3, 64, |idx, acc| {
                        let (nb, bi) = [(48usize, 0usize), (128, 1), (256, 2)][(idx % 3) as usize];
                        let x = alpha[((idx / 3) % n) as usize];
                        let y = alpha[(idx / 3 / n) as usize];
                        let mut b = [0u32; 256];
                        for i in 0..nb {
                            b[i] = if (i / 3) % 2 == 0 { x } else { y };
                        }
                        let (lo, hi) = (x.min(y), x.max(y));
                        let mid = lo + (hi - lo) / 2;
                        acc.evals += bes[bi].len() as u64;
                        acc.transitions += bes[bi].len() as u64;
                        acc.nontrivial += 1;
                        match judge_agg(nb, &bes[bi], &b, lo, mid, hi) {
                            Ok(fp) => {
                                acc.outcomes.insert(fp);
                                if idx % 2003 == 0 {
                                    acc.sample(idx, || json!({"buckets": nb, "x": x, "y": y, "q": [lo, mid, hi]}));
                                }
                            }
                            Err(e) => acc.fail(idx, "agg-backends-qalpha", e, json!({"kind": "agg", "key": "agg-backend", "nb": nb, "buckets": b[..nb].to_vec(), "q": [lo, mid, hi]})),
                        }
                    });
                },
            );
            }
        }

        if ctx.want("schedules") {
            use crate::sched::*;
            let exe = std::env::current_exe().expect("current_exe");
            let bound = if quick { 1 } else { 3 };
            let mut hs: Vec<Vec<String>> = harnesses(2);
            if quick {
                // 3-thread harnesses: colliding triples and one mixed triple per cell family
                for t in [["cmp32", "cmp32", "cmp32"], ["fin128", "fin128", "cmp32"], ["fin48", "fin256", "fin48"], ["cmp64", "fin128", "cmp32"]] {
                    hs.push(t.iter().map(|s| s.to_string()).collect());
                }
            } else {
                hs.extend(harnesses(3));
            }
            // a thread whose first call collides and that then makes a second, different call
            hs.push(vec!["cmp32+fin128".into(), "fin128+cmp32".into()]);
            r.section(
                "schedules",
                "stateless schedule exploration over real threads and the real std::sync::OnceLock dispatch cells: N threads each make the process's first dispatching call(s); scheduling points at function entry, detection-closure entry and before each CPU feature probe (hooks); preemption-bounded depth-first search, one fresh process per schedule (a static OnceLock cannot be reset), a granted thread waiting in a non-harness futex is observed as blocked in OnceLock; oracle: every thread completes with the reference result in every schedule, no panic, no deadlock; failing schedules are replayed twice; states = decision points visited, transitions = schedules (processes) run; non-trivial = schedules",
                &format!("{} harnesses (all pairs of first operations, colliding and mixed triples{}), preemption bound {bound}", hs.len(), if quick { "" } else { ", all triples" }),
                true,
                |s| {
                    let exe = &exe;
                    let hs_ref = &hs;
                    let stats = std::sync::Mutex::new(Vec::new());
                    let acc = par_for(hs.len() as u64, 1, |hi, acc| {
                        let ops = &hs_ref[hi as usize];
                        let st = explore_harness(exe, ops, bound, 20_000);
                        acc.evals += st.decisions;
                        acc.transitions += st.schedules;
                        acc.nontrivial += st.schedules;
                        for fp in &st.distinct_traces {
                            acc.outcomes.insert(*fp);
                        }
                        if let Some((msg, replay)) = &st.violation {
                            acc.fail(hi, "schedules", msg.clone(), replay.clone());
                        }
                        if let Some(sm) = &st.sample {
                            acc.sample(hi, || sm.clone());
                        }
                        stats.lock().unwrap().push(json!({"ops": ops, "schedules": st.schedules, "max_decisions": st.max_decisions, "schedules_with_blocking_observed": st.blocked_observed, "distinct_traces": st.distinct_traces.len(), "machinery": st.machinery}));
                    });
                    s.acc = acc;
                    let stats = stats.into_inner().unwrap();
                    for st in &stats {
                        if let Some(m) = st["machinery"].as_str() {
                            s.caps.push(format!("MACHINERY: {:?}: {m}", st["ops"]));
                        }
                    }
                    let blocking: u64 = stats.iter().map(|x| x["schedules_with_blocking_observed"].as_u64().unwrap_or(0)).sum();
                    if blocking == 0 {
                        s.caps.push("MACHINERY: no schedule observed a thread blocked in OnceLock (vacuous exploration)".into());
                    }
                    s.states = s.acc.evals;
                    s.extra.insert("harness_stats".into(), json!(stats));
                    s.extra.insert("schedules_with_blocking_observed".into(), json!(blocking));
                    s.extra.insert("traces_validated_against_impl".into(), json!(s.acc.transitions));
                },
            );
        }
    }
}

pub fn replay(case: &Value) -> Result<(), String> {
    quiet_panics();
    match case["kind"].as_str().unwrap_or("") {
        #[cfg(fast_tlsh_verif)]
        "agg" => {
            let nb = case["nb"].as_u64().ok_or("nb")? as usize;
            let mut b = [0u32; 256];
            for (i, v) in case["buckets"].as_array().ok_or("buckets")?.iter().enumerate() {
                b[i] = v.as_u64().unwrap_or(0) as u32;
            }
            let q: Vec<u32> = case["q"].as_array().ok_or("q")?.iter().map(|x| x.as_u64().unwrap_or(0) as u32).collect();
            judge_agg(nb, &agg_backends(nb), &b, q[0], q[1], q[2]).map(|_| ())
        }
        #[cfg(fast_tlsh_verif)]
        "schedule" => {
            let ops: Vec<String> = case["ops"].as_array().ok_or("ops")?.iter().map(|x| x.as_str().unwrap_or("").to_string()).collect();
            let schedule: Vec<usize> = case["schedule"].as_array().ok_or("schedule")?.iter().map(|x| x.as_u64().unwrap_or(0) as usize).collect();
            let exe = std::env::current_exe().map_err(|e| e.to_string())?;
            let sched: Vec<String> = schedule.iter().map(|x| x.to_string()).collect();
            let out = std::process::Command::new(exe).args(["sched-child", &ops.join(","), &sched.join(",")]).output().map_err(|e| e.to_string())?;
            let t: Value = serde_json::from_slice(&out.stdout).map_err(|e| e.to_string())?;
            println!("{}", serde_json::to_string_pretty(&t).unwrap_or_default());
            if t["verdict"].as_str() != Some("complete") {
                return Err(format!("schedule ended with {}", t["verdict"]));
            }
            for r in t["results"].as_array().cloned().unwrap_or_default() {
                if let Some(e) = r.get("err") {
                    return Err(format!("thread failed: {e}"));
                }
            }
            Ok(())
        }
        k => Err(format!("replay kind {k}: handled by the driver (config-diff) or re-run the check")),
    }
}
