//! Judges and enumerators shared by C04, C05, C06, C14, C15 (text/binary codecs).

use crate::checks::common::*;
use crate::refmodel::*;
use crate::streams::splitmix64;
use crate::variant::*;
use std::str::FromStr;
use tlsh::{FuzzyHashType, HexStringPrefix, OperationError, ParseError};

pub const STRICT: bool = cfg!(feature = "strict-parser");

pub fn modes() -> [(Option<HexStringPrefix>, RefPrefix); 3] {
    [
        (None, RefPrefix::Auto),
        (Some(HexStringPrefix::Empty), RefPrefix::Empty),
        (Some(HexStringPrefix::WithVersion), RefPrefix::WithVersion),
    ]
}

fn describe_real<V: Variant>(r: &Result<V::Hash, ParseError>) -> String {
    match r {
        Ok(h) => format!("Ok({})", hex(&V::to_bytes(h))),
        Err(e) => format!("Err({e:?})"),
    }
}

/// C05 (and, in strict builds, C15): every parse entry point on arbitrary bytes.
/// Returns a fingerprint of the three outcomes.
pub fn judge_parse<V: Variant>(s: &[u8]) -> Result<u64, String> {
    let mut fp = Vec::new();
    for (mode, rmode) in modes() {
        let real = catch(|| <V::Hash as FuzzyHashType>::from_str_bytes(s, mode))
            .map_err(|p| format!("{} from_str_bytes({:?}, {mode:?}) panicked: {p}", V::NAME, String::from_utf8_lossy(s)))?;
        let expect = ref_hex_parse(s, rmode, V::SIZE, V::CK, STRICT, V::NB == 48);
        match (&real, &expect) {
            (Ok(h), RefParse::Ok(bytes)) => {
                if V::to_bytes(h) != *bytes {
                    return Err(format!("{} from_str_bytes({:?}, {mode:?}) = {} but the digits denote {}", V::NAME, String::from_utf8_lossy(s), describe_real::<V>(&real), hex(bytes)));
                }
                fp.push(0u8);
            }
            (Err(e), RefParse::Err(set)) => {
                let m = map_parse_err(e);
                if !set.contains(&m) {
                    return Err(format!("{} from_str_bytes({:?}, {mode:?}) = Err({e:?}) but the applicable errors are {set:?}", V::NAME, String::from_utf8_lossy(s)));
                }
                fp.push(1 + m as u8);
            }
            (_, _) => {
                return Err(format!("{} from_str_bytes({:?}, {mode:?}) = {} but reference = {:?}", V::NAME, String::from_utf8_lossy(s), describe_real::<V>(&real), expect));
            }
        }
        // the &str entry points agree with the byte entry point
        if let Ok(text) = std::str::from_utf8(s) {
            let via_with = catch(|| <V::Hash as FuzzyHashType>::from_str_with(text, mode)).map_err(|p| format!("from_str_with panicked: {p}"))?;
            if via_with != real {
                return Err(format!("{} from_str_with({text:?}, {mode:?}) = {} but from_str_bytes = {}", V::NAME, describe_real::<V>(&via_with), describe_real::<V>(&real)));
            }
            if mode.is_none() {
                let via_fs = catch(|| <V::Hash as FromStr>::from_str(text)).map_err(|p| format!("from_str panicked: {p}"))?;
                if via_fs != real {
                    return Err(format!("{} from_str({text:?}) = {} but from_str_bytes(None) = {}", V::NAME, describe_real::<V>(&via_fs), describe_real::<V>(&real)));
                }
                let via_parse: Result<V::Hash, ParseError> = text.parse();
                if via_parse != real {
                    return Err(format!("{} str::parse({text:?}) differs from from_str_bytes(None)", V::NAME));
                }
            }
        }
    }
    Ok(crate::report::fnv(&fp))
}

/// C04 second half: every accepted string - through every prefix mode - is the optional "T1" followed by hex
/// digits only and re-formats to its own uppercase form, so no two different accepted strings (up to letter case
/// and prefix) denote the same hash.
pub fn judge_canonical<V: Variant>(s: &[u8]) -> Result<bool, String> {
    let mut any = false;
    for (mode, _) in modes() {
        let real = catch(|| <V::Hash as FuzzyHashType>::from_str_bytes(s, mode)).map_err(|p| format!("from_str_bytes({mode:?}) panicked: {p}"))?;
        if let Ok(h) = real {
            any = true;
            let prefixed = match mode {
                Some(HexStringPrefix::WithVersion) => true,
                Some(HexStringPrefix::Empty) => false,
                None => s.len() == V::STRLEN,
            };
            if prefixed && !s.starts_with(b"T1") {
                return Err(format!("{} from_str_bytes({:?}, {mode:?}) accepted a string whose prefix is not \"T1\" (it denotes the same hash as the properly prefixed string)", V::NAME, String::from_utf8_lossy(s)));
            }
            let digits = if prefixed { &s[2.min(s.len())..] } else { s };
            if let Some(c) = digits.iter().find(|c| !c.is_ascii_hexdigit()) {
                return Err(format!("{} from_str_bytes({:?}, {mode:?}) accepted a string containing the non-hex byte {c:#04x}", V::NAME, String::from_utf8_lossy(s)));
            }
            let mut expect = b"T1".to_vec();
            expect.extend(digits.iter().map(|c| c.to_ascii_uppercase()));
            let text = h.to_string();
            if text.as_bytes() != expect.as_slice() {
                return Err(format!("{} accepted ({mode:?}) {:?} re-formats to {text:?}, expected {:?}", V::NAME, String::from_utf8_lossy(s), String::from_utf8_lossy(&expect)));
            }
        }
    }
    Ok(any)
}

fn store_str<V: Variant>(h: &V::Hash, prefix: HexStringPrefix) -> Result<Vec<u8>, String> {
    let n = match prefix {
        HexStringPrefix::Empty => V::STRLEN - 2,
        HexStringPrefix::WithVersion => V::STRLEN,
    };
    if n != match prefix {
        HexStringPrefix::Empty => <V::Hash as FuzzyHashType>::LEN_IN_STR_EXCEPT_PREFIX,
        HexStringPrefix::WithVersion => <V::Hash as FuzzyHashType>::LEN_IN_STR,
    } {
        return Err(format!("{} advertised string length constant mismatch", V::NAME));
    }
    let mut buf = vec![0u8; n];
    match h.store_into_str_bytes(&mut buf, prefix) {
        Ok(k) if k == n => Ok(buf),
        other => Err(format!("{} store_into_str_bytes({prefix:?}) returned {other:?}, expected Ok({n})", V::NAME)),
    }
}

/// Whether the lenient value `bytes` is constructible in this build (strict builds reject some).
pub fn constructible<V: Variant>(bytes: &[u8]) -> bool {
    !STRICT || ref_strict_errors(bytes, V::CK, V::NB == 48).is_empty()
}

/// C04 first half: format in every way, parse back through every entry point.
pub fn judge_format<V: Variant>(bytes: &[u8]) -> Result<(), String> {
    let h = V::from_slice(bytes).map_err(|e| format!("{} try_from({}) failed: {e:?}", V::NAME, hex(bytes)))?;
    let with = ref_hex_format(bytes, V::CK, true);
    let without = ref_hex_format(bytes, V::CK, false);
    let display = catch(|| format!("{}", h)).map_err(|p| format!("Display panicked: {p}"))?;
    let tostr = catch(|| h.to_string()).map_err(|p| format!("to_string panicked: {p}"))?;
    let s_with = store_str::<V>(&h, HexStringPrefix::WithVersion)?;
    let s_without = store_str::<V>(&h, HexStringPrefix::Empty)?;
    for (what, got, expect) in [
        ("Display", display.as_bytes(), &with),
        ("to_string", tostr.as_bytes(), &with),
        ("store_into_str_bytes(WithVersion)", s_with.as_slice(), &with),
        ("store_into_str_bytes(Empty)", s_without.as_slice(), &without),
    ] {
        if got != expect.as_slice() {
            return Err(format!("{} {what} of {} = {:?} but reference text = {:?}", V::NAME, hex(bytes), String::from_utf8_lossy(got), String::from_utf8_lossy(expect)));
        }
        let digits = if got.len() == V::STRLEN {
            if &got[..2] != b"T1" {
                return Err(format!("{} {what} does not start with T1", V::NAME));
            }
            &got[2..]
        } else {
            got
        };
        if !digits.iter().all(|c| c.is_ascii_digit() || (b'A'..=b'F').contains(c)) {
            return Err(format!("{} {what} contains a non-uppercase-hex character", V::NAME));
        }
    }
    // parse back through every entry point
    for (text, ms) in [
        (&with, [None, Some(HexStringPrefix::WithVersion)]),
        (&without, [None, Some(HexStringPrefix::Empty)]),
    ] {
        for m in ms {
            let back = <V::Hash as FuzzyHashType>::from_str_bytes(text, m);
            if back != Ok(h) {
                return Err(format!("{} from_str_bytes(format(h), {m:?}) = {} but h = {}", V::NAME, describe_real::<V>(&back), hex(bytes)));
            }
            let t = std::str::from_utf8(text).map_err(|_| "formatted text is not UTF-8".to_string())?;
            let back = <V::Hash as FuzzyHashType>::from_str_with(t, m);
            if back != Ok(h) {
                return Err(format!("{} from_str_with(format(h), {m:?}) differs from h", V::NAME));
            }
        }
        let t = std::str::from_utf8(text).unwrap();
        let back = <V::Hash as FromStr>::from_str(t);
        if back != Ok(h) {
            return Err(format!("{} from_str(format(h)) differs from h", V::NAME));
        }
        // lower-case text denotes the same hash
        let lower = t.replace("T1", "\u{1}").to_ascii_lowercase().replace('\u{1}', "T1");
        let back = <V::Hash as FromStr>::from_str(&lower);
        if back != Ok(h) {
            return Err(format!("{} from_str(lowercase(format(h))) differs from h", V::NAME));
        }
    }
    Ok(())
}

/// C06: binary round trip, accessors, hex layout, clear_checksum.
pub fn judge_binary<V: Variant>(bytes: &[u8]) -> Result<(), String> {
    let h = V::from_slice(bytes).map_err(|e| format!("{} try_from(&[u8]) of {} failed: {e:?}", V::NAME, hex(bytes)))?;
    let h2 = V::from_array(bytes).map_err(|e| format!("{} try_from(&[u8; N]) of {} failed: {e:?}", V::NAME, hex(bytes)))?;
    if h != h2 {
        return Err(format!("{} array and slice conversions of {} differ", V::NAME, hex(bytes)));
    }
    let stored = V::to_bytes(&h);
    if stored != bytes {
        return Err(format!("{} store(try_from({})) = {}", V::NAME, hex(bytes), hex(&stored)));
    }
    // the same through a buffer that is larger than needed (the API allows it)
    for extra in [1usize, 7, 64] {
        let mut big = vec![0xc7u8; V::SIZE + extra];
        match h.store_into_bytes(&mut big) {
            Ok(n) if n == V::SIZE => {
                if big[..n] != *bytes {
                    return Err(format!("{} store_into_bytes into a {}-byte buffer wrote {} in its first {n} bytes, expected {}", V::NAME, big.len(), hex(&big[..n]), hex(bytes)));
                }
                if V::from_slice(&big[..n]).ok() != Some(h) {
                    return Err(format!("{} try_from(&buf[..n]) after storing into a larger buffer differs from h", V::NAME));
                }
            }
            other => return Err(format!("{} store_into_bytes into a {}-byte buffer returned {other:?}", V::NAME, big.len())),
        }
    }
    let again = V::from_slice(&stored).map_err(|e| format!("try_from(store(h)) failed: {e:?}"))?;
    if again != h {
        return Err(format!("{} try_from(store(h)) != h", V::NAME));
    }
    if <V::Hash as FuzzyHashType>::SIZE_IN_BYTES != V::SIZE || <V::Hash as FuzzyHashType>::NUMBER_OF_BUCKETS != V::NB {
        return Err(format!("{} size constants mismatch", V::NAME));
    }
    let ck = V::CK;
    if V::checksum_bytes(&h) != bytes[..ck] {
        return Err(format!("{} checksum().data() = {} but bytes = {}", V::NAME, hex(&V::checksum_bytes(&h)), hex(&bytes[..ck])));
    }
    if h.length().value() != bytes[ck] {
        return Err(format!("{} length().value() = {} but byte = {}", V::NAME, h.length().value(), bytes[ck]));
    }
    let q = h.qratios();
    if q.value() != bytes[ck + 1] || q.q1ratio() != bytes[ck + 1] & 15 || q.q2ratio() != bytes[ck + 1] >> 4 {
        return Err(format!("{} qratios value/q1/q2 = {:#04x}/{}/{} but byte = {:#04x}", V::NAME, q.value(), q.q1ratio(), q.q2ratio(), bytes[ck + 1]));
    }
    let body = &bytes[ck + 2..];
    if V::body_bytes(&h) != body {
        return Err(format!("{} body().data() differs from the body bytes", V::NAME));
    }
    for i in 0..V::NB {
        let expect = (body[body.len() - 1 - i / 4] >> (2 * (i % 4))) & 3;
        let got = V::quartile(&h, i);
        if got != expect {
            return Err(format!("{} quartile({i}) = {got} but bits say {expect}", V::NAME));
        }
    }
    for i in [V::NB, V::NB + 1, usize::MAX] {
        if catch(|| V::quartile(&h, i)).is_ok() {
            return Err(format!("{} quartile({i}) did not panic (out of range)", V::NAME));
        }
    }
    // checksum validity accessor agrees with the rule
    let valid = !(V::NB == 48 && bytes[0] > 48);
    if V::checksum_valid(&h) != valid {
        return Err(format!("{} checksum().is_valid() = {} for {:#04x}", V::NAME, V::checksum_valid(&h), bytes[0]));
    }
    if h.length().is_valid() != (bytes[ck] < 170) {
        return Err(format!("{} length().is_valid() wrong for {}", V::NAME, bytes[ck]));
    }
    // hex = "T1" + nibble-swapped header + plain body
    let text = h.to_string();
    let mut expect = String::from("T1");
    for (i, b) in bytes.iter().enumerate() {
        if i < ck + 2 {
            expect.push_str(&format!("{:02X}", b.rotate_left(4)));
        } else {
            expect.push_str(&format!("{:02X}", b));
        }
    }
    if text != expect {
        return Err(format!("{} to_string() = {text} but layout says {expect}", V::NAME));
    }
    // clear_checksum zeroes the checksum bytes and nothing else
    let mut c = h;
    c.clear_checksum();
    let cb = V::to_bytes(&c);
    if cb[..ck].iter().any(|&x| x != 0) || cb[ck..] != bytes[ck..] {
        return Err(format!("{} clear_checksum: {} -> {}", V::NAME, hex(bytes), hex(&cb)));
    }
    Ok(())
}

pub fn judge_bad_slice_len<V: Variant>(len: usize) -> Result<(), String> {
    let data: Vec<u8> = (0..len).map(|i| (i * 7 + 1) as u8).collect();
    let r = catch(|| V::from_slice(&data)).map_err(|p| format!("try_from(&[u8]) of length {len} panicked: {p}"))?;
    if len == V::SIZE {
        return Ok(());
    }
    match r {
        Err(ParseError::InvalidStringLength) => Ok(()),
        other => Err(format!("{} try_from(slice of length {len}) = {:?}, expected Err(InvalidStringLength)", V::NAME, other.map(|h| hex(&V::to_bytes(&h))))),
    }
}

/// C14: form 0 = bytes, 1 = hex, 2 = hex with prefix.
pub fn judge_buffer<V: Variant>(bytes: &[u8], form: usize, len: usize, sentinel: u8) -> Result<(), String> {
    let h = V::from_slice(bytes).map_err(|e| format!("try_from failed: {e:?}"))?;
    let (n, repr): (usize, Vec<u8>) = match form {
        0 => (V::SIZE, bytes.to_vec()),
        1 => (V::STRLEN - 2, ref_hex_format(bytes, V::CK, false)),
        _ => (V::STRLEN, ref_hex_format(bytes, V::CK, true)),
    };
    // non-uniform sentinel so that shifted writes are visible too
    // three masked constant fills and four ramps that together put every byte value
    // (letters of both cases, digits, controls, high bytes) somewhere in a 64-byte tail
    let fill = |i: usize| match sentinel {
        0x00 | 0xa5 | 0xff => sentinel ^ ((i as u8).wrapping_mul(31) & 0x0f),
        k => (i as u8).wrapping_add(k),
    };
    let mut buf: Vec<u8> = (0..len).map(fill).collect();
    let res = catch(|| match form {
        0 => h.store_into_bytes(&mut buf),
        1 => h.store_into_str_bytes(&mut buf, HexStringPrefix::Empty),
        _ => h.store_into_str_bytes(&mut buf, HexStringPrefix::WithVersion),
    })
    .map_err(|p| format!("{} store (form {form}) into a buffer of {len} panicked: {p}", V::NAME))?;
    if len < n {
        if res != Err(OperationError::BufferIsTooSmall) {
            return Err(format!("{} store (form {form}) into {len} < {n} bytes returned {res:?}", V::NAME));
        }
        // The property fixes the result (the error) for L < N and says nothing about the buffer's content then;
        // requiring it to be untouched demanded more than is stated (DESIGN.md 9.4), so that is no longer judged.
    } else {
        if res != Ok(n) {
            return Err(format!("{} store (form {form}) into {len} >= {n} bytes returned {res:?}", V::NAME));
        }
        if buf[..n] != repr[..] {
            return Err(format!("{} store (form {form}) wrote {:?}, expected {:?}", V::NAME, String::from_utf8_lossy(&buf[..n]), String::from_utf8_lossy(&repr)));
        }
        if let Some(i) = (n..len).find(|&i| buf[i] != fill(i)) {
            return Err(format!("{} store (form {form}) into {len} bytes modified byte {i} beyond the advertised size {n}", V::NAME));
        }
    }
    Ok(())
}

// ---------------------------------------------------------------------------
// enumerators

/// Hash values: every byte position x all 256 values x 4 backgrounds.
/// idx in 0..SIZE*4*256.
pub fn value_by_index<V: Variant>(idx: u64) -> Vec<u8> {
    let x = (idx % 256) as u8;
    let bg = ((idx / 256) % 4) as usize;
    let pos = (idx / 1024) as usize;
    let mut b: Vec<u8> = match bg {
        0 => vec![0x00; V::SIZE],
        1 => vec![0xff; V::SIZE],
        2 => vec![0x5a; V::SIZE],
        _ => (0..V::SIZE).map(|i| (i * 37 + 11) as u8).collect(),
    };
    if STRICT {
        // keep the background constructible in strict builds
        if V::NB == 48 {
            b[0] %= 49;
        }
        b[V::CK] %= 170;
    }
    b[pos] = x;
    b
}
pub fn value_count<V: Variant>() -> u64 {
    (V::SIZE * 4 * 256) as u64
}

/// Header windows: all 2^16 values of two adjacent header bytes. idx in 0..(CK+1)*65536.
pub fn header_window_by_index<V: Variant>(idx: u64) -> Vec<u8> {
    let w = (idx / 65536) as usize;
    let v = (idx % 65536) as u16;
    let mut b: Vec<u8> = (0..V::SIZE).map(|i| (splitmix64(i as u64 + 99) >> 24) as u8).collect();
    if STRICT {
        if V::NB == 48 {
            b[0] %= 49;
        }
        b[V::CK] %= 170;
    }
    b[w] = (v >> 8) as u8;
    b[w + 1] = v as u8;
    b
}
pub fn header_window_count<V: Variant>() -> u64 {
    ((V::CK + 1) * 65536) as u64
}

/// Well-formed base strings (with prefix): all-digit, all-upper-letter, mixed case.
pub fn base_strings<V: Variant>() -> Vec<Vec<u8>> {
    let n = V::STRLEN - 2;
    let mut v = Vec::new();
    for kind in 0..3 {
        let mut s = b"T1".to_vec();
        for i in 0..n {
            let c = match kind {
                0 => b"0123456789"[(i * 7 + 3) % 10],
                1 => b"ABCDEF"[(i * 5 + 1) % 6],
                _ => b"0a1B2c3D4e5F6f7E8d9Cab"[(i * 13 + 5) % 22],
            };
            s.push(c);
        }
        if STRICT {
            // keep the header strict-valid: checksum byte 0x11/.. and length code small.
            // text header is nibble-swapped; use digits '1','0' => byte 0x01 etc.
            let hdr = V::CK * 2 + 2;
            for i in 0..hdr {
                s[2 + i] = if i % 2 == 0 { b'2' } else { b'0' };
            }
        }
        v.push(s);
    }
    v
}

pub const CLASS7: [u8; 7] = [b'0', b'A', b'f', b'G', b'@', 0x80, 0xff];
