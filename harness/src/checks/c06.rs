//! C06 — binary form round-trips; binary, hex and accessors describe the same parts.

use crate::checks::codec::*;
use crate::checks::common::*;
use crate::report::*;
use crate::variant::*;
use crate::{with_variant, Ctx};
use serde_json::{json, Value};

fn per_variant<V: Variant>(r: &mut Report, ctx: &Ctx) {
    let name = format!("binary-values-{}", V::NAME);
    if ctx.want(&name) {
        r.section(
            &name,
            "byte arrays = every position x all 256 values x 4 backgrounds, plus all 2^16 values of every adjacent header byte pair: array and slice conversion agree, store(try_from(b)) == b, try_from(store(h)) == h, every accessor (checksum, length, Q-ratio value/q1/q2, body, quartile(i) for all i, quartile(N) panics, validity flags) equals the field of b, hex layout, clear_checksum; distinct by enumeration; non-trivial = all",
            &format!("{} + {} arrays", value_count::<V>(), header_window_count::<V>()),
            true,
            |s| {
                let n1 = value_count::<V>();
                let n2 = header_window_count::<V>();
                s.acc = par_for(n1 + n2, 512, |idx, acc| {
                    let bytes = if idx < n1 { value_by_index::<V>(idx) } else { header_window_by_index::<V>(idx - n1) };
                    if !constructible::<V>(&bytes) {
                        return;
                    }
                    acc.evals += 1;
                    acc.transitions += 12 + V::NB as u64;
                    acc.nontrivial += 1;
                    match judge_binary::<V>(&bytes) {
                        Ok(()) => {
                            if idx % 4099 == 0 {
                                acc.outcomes.insert_bytes(&bytes);
                                acc.sample(idx, || json!({"variant": V::NAME, "bytes": hex(&bytes)}));
                            }
                        }
                        Err(e) => acc.fail(idx, &name, e, json!({"kind": "binary", "variant": V::NAME, "bytes": hex(&bytes)})),
                    }
                });
            },
        );
    }
    let name = format!("slice-lengths-{}", V::NAME);
    if ctx.want(&name) {
        r.section(
            &name,
            "slices of every length 0..=2*SIZE and of 3x, 4x, 16x, SIZE^2, 4096, 65536 bytes: all but SIZE are rejected with InvalidStringLength, without panic; non-trivial = lengths != SIZE",
            &format!("{} lengths", 2 * V::SIZE + 1),
            true,
            |s| {
                for len in (0..=2 * V::SIZE).chain([3 * V::SIZE, 4 * V::SIZE, 16 * V::SIZE, V::SIZE * V::SIZE, 4096, 65536]) {
                    s.acc.evals += 1;
                    s.acc.transitions += 1;
                    if len != V::SIZE {
                        s.acc.nontrivial += 1;
                    }
                    s.acc.outcomes.insert((len == V::SIZE) as u64);
                    if let Err(e) = judge_bad_slice_len::<V>(len) {
                        s.acc.fail(len as u64, &name, e, json!({"kind": "slicelen", "variant": V::NAME, "len": len}));
                        return;
                    }
                    s.acc.sample(len as u64, || json!({"variant": V::NAME, "slice_len": len}));
                }
            },
        );
    }
}

pub fn run(r: &mut Report, ctx: &Ctx) {
    quiet_panics();
    per_variant::<VShort>(r, ctx);
    per_variant::<VNormal>(r, ctx);
    per_variant::<VNormalLC>(r, ctx);
    per_variant::<VLong>(r, ctx);
    per_variant::<VLongLC>(r, ctx);
    crate::seq::section(r, ctx, "codec");
}

fn rb<V: Variant>(b: &[u8]) -> Result<(), String> {
    judge_binary::<V>(b)
}
fn rl<V: Variant>(n: usize) -> Result<(), String> {
    judge_bad_slice_len::<V>(n)
}

pub fn replay(case: &Value) -> Result<(), String> {
    quiet_panics();
    let v = case["variant"].as_str().ok_or("variant")?;
    match case["kind"].as_str().unwrap_or("") {
        "binary" => {
            let b = unhex(case["bytes"].as_str().ok_or("bytes")?);
            with_variant!(v, rb(&b))
        }
        "slicelen" => {
            let n = case["len"].as_u64().ok_or("len")? as usize;
            with_variant!(v, rl(n))
        }
        k => Err(format!("unknown replay kind {k}")),
    }
}
