//! C13 — string comparison helpers equal parse-then-compare and blame the right side.

use crate::checks::codec::*;
use crate::checks::common::*;
use crate::refmodel::*;
use crate::report::*;
use crate::streams::splitmix64;
use crate::variant::*;
use crate::{with_variant, Ctx};
use serde_json::{json, Value};
use std::str::FromStr;
use tlsh::{FuzzyHashType, ParseErrorSide};

fn string_alphabet<V: Variant>() -> Vec<String> {
    let mut out: Vec<String> = Vec::new();
    let mk = |seed: u64| -> Vec<u8> {
        let mut b: Vec<u8> = (0..V::SIZE).map(|i| (splitmix64(seed * 131 + i as u64) >> 20) as u8).collect();
        if STRICT {
            if V::NB == 48 {
                b[0] %= 49;
            }
            b[V::CK] %= 170;
        }
        b
    };
    let text = |b: &[u8], prefix: bool| String::from_utf8(ref_hex_format(b, V::CK, prefix)).unwrap();
    // valid strings: upper+T1, lower without prefix, mixed case; each with twins differing in one field
    let base = mk(1);
    out.push(text(&base, true));
    out.push(text(&base, false).to_ascii_lowercase());
    let mixed: String = text(&base, true).chars().enumerate().map(|(i, c)| if i >= 2 && i % 2 == 0 { c.to_ascii_lowercase() } else { c }).collect();
    out.push(mixed);
    for (field, pos) in [("checksum", 0usize), ("length", V::CK), ("qratio", V::CK + 1), ("body-first", V::CK + 2), ("body-last", V::SIZE - 1)] {
        let _ = field;
        let mut t = base.clone();
        t[pos] = if pos == 0 && V::NB == 48 { (t[pos] + 1) % 49 } else if pos == V::CK { (t[pos] + 3) % 170 } else { t[pos] ^ 0x11 };
        out.push(text(&t, true));
        out.push(text(&t, false).to_ascii_lowercase());
    }
    for s in 2..8 {
        out.push(text(&mk(s), s % 2 == 0));
    }
    // invalid strings
    let good = text(&base, true);
    out.push(String::new());
    out.push("TNULL".into());
    out.push(good[..good.len() - 1].to_string());
    out.push(format!("{good}0"));
    out.push(format!("T2{}", &good[2..]));
    out.push(format!("t1{}", &good[2..]));
    for pos in [2usize, 2 + V::CK * 2, 2 + V::CK * 2 + 2, 2 + V::CK * 2 + 4, good.len() - 1] {
        let mut s = good.clone().into_bytes();
        s[pos] = b'@';
        out.push(String::from_utf8(s).unwrap());
    }
    // non-ASCII UTF-8 of the right byte length and of the right char count
    let mut s = good.clone();
    s.replace_range(4..6, "\u{e9}");
    out.push(s);
    let mut s = good.clone();
    s.replace_range(4..5, "\u{e9}");
    out.push(s);
    out.push(format!("T1{}", "g".repeat(V::STRLEN - 2)));
    out.push(" ".repeat(V::STRLEN));
    // whitespace must not be tolerated on either side
    out.push(format!("{good} "));
    out.push(format!(" {good}"));
    out.push(format!("{good}\n"));
    out.push(format!("{}\t", &good[2..]));
    // length codes that only the lenient parser accepts (>= 170): the helper must still add the length distance
    for code in [0xaau8, 0xff] {
        let mut t = base.clone();
        t[V::CK] = code;
        out.push(text(&t, code == 0xaa));
    }
    out
}

/// Number of strings in the alphabet (the transcripts index it).
pub const STRING_ALPHABET_LEN: usize = 40;

pub fn judge_strings<V: Variant>(l: &str, r: &str) -> Result<u64, String> {
    let real = catch(|| V::compare_with(l, r)).map_err(|p| format!("compare_with({l:?}, {r:?}) panicked: {p}"))?;
    let pl = <V::Hash as FromStr>::from_str(l);
    let pr = <V::Hash as FromStr>::from_str(r);
    let (desc, fp) = match (&pl, &pr) {
        (Ok(a), Ok(b)) => {
            let d = a.compare(b);
            if real.as_ref().ok() != Some(&d) {
                return Err(format!("{} compare_with({l:?}, {r:?}) = {real:?} but parse-then-compare = Ok({d})", V::NAME));
            }
            // the distance is also the reference distance of the denoted values
            let rd = ref_distance(&V::to_bytes(a), &V::to_bytes(b), V::CK, true);
            if rd != d {
                return Err(format!("{} compare of parsed values = {d} but reference distance = {rd}", V::NAME));
            }
            ("ok", d as u64)
        }
        (Err(e), _) => {
            match &real {
                Err(pe) if pe.side() == ParseErrorSide::Left && pe.inner_err() == *e => {}
                other => return Err(format!("{} compare_with({l:?}, {r:?}) = {other:?} but the left string fails to parse with {e:?}", V::NAME)),
            }
            ("left", 10_000 + map_parse_err(e) as u64)
        }
        (Ok(_), Err(e)) => {
            match &real {
                Err(pe) if pe.side() == ParseErrorSide::Right && pe.inner_err() == *e => {}
                other => return Err(format!("{} compare_with({l:?}, {r:?}) = {other:?} but the right string fails to parse with {e:?}", V::NAME)),
            }
            ("right", 20_000 + map_parse_err(e) as u64)
        }
    };
    let _ = desc;
    if V::NAME == "Normal" {
        let viadefault = catch(|| tlsh::compare(l, r)).map_err(|p| format!("compare panicked: {p}"))?;
        if viadefault != real {
            return Err(format!("compare({l:?}, {r:?}) = {viadefault:?} but compare_with::<Tlsh> = {real:?}"));
        }
    }
    Ok(fp)
}

fn per_variant<V: Variant>(r: &mut Report, ctx: &Ctx) {
    let name = format!("string-pairs-{}", V::NAME);
    if !ctx.want(&name) {
        return;
    }
    let alpha = string_alphabet::<V>();
    let n = alpha.len();
    r.section(
        &name,
        "all ordered pairs from a string alphabet (valid: upper+T1, lower without prefix, mixed case, twins differing in one field; invalid: empty, TNULL, length +-1, T2/t1 prefix, '@' in each field, non-ASCII UTF-8, all 'g', spaces): compare_with (and compare for Normal) equals parse-left, parse-right, compare, blaming the left side first; non-trivial = pairs with at least one invalid string",
        &format!("{n} x {n} ordered pairs"),
        true,
        |s| {
            let alpha = &alpha;
            s.acc = par_for((n * n) as u64, 64, |idx, acc| {
                let (i, j) = (idx as usize / n, idx as usize % n);
                acc.evals += 1;
                acc.transitions += 4;
                match judge_strings::<V>(&alpha[i], &alpha[j]) {
                    Ok(fp) => {
                        acc.outcomes.insert(fp);
                        if fp >= 10_000 {
                            acc.nontrivial += 1;
                        }
                        if (i == 1 && j == 3) || (i == 25 && j == 24) {
                            acc.sample(idx, || json!({"variant": V::NAME, "left": alpha[i], "right": alpha[j]}));
                        }
                    }
                    Err(e) => acc.fail(idx, &name, e, json!({"kind": "strings", "variant": V::NAME, "left": alpha[i], "right": alpha[j]})),
                }
            });
        },
    );
}

/// compare() is compare_with::<Tlsh>: strings of other variants' lengths are length errors.
fn default_type_cross_variant(r: &mut Report, ctx: &Ctx) {
    if !ctx.want("default-type-cross-variant") {
        return;
    }
    r.section(
        "default-type-cross-variant",
        "tlsh::compare (the default hash type) on all ordered pairs drawn from the string alphabets of ALL five variants (valid strings of another variant are wrong-length strings for the default type): result equals parse-left, parse-right, compare with the default type; non-trivial = pairs with at least one string that is not a valid default-type string",
        "190 x 190 ordered pairs",
        true,
        |s| {
            let mut all: Vec<String> = Vec::new();
            all.extend(string_alphabet::<VShort>());
            all.extend(string_alphabet::<VNormal>());
            all.extend(string_alphabet::<VNormalLC>());
            all.extend(string_alphabet::<VLong>());
            all.extend(string_alphabet::<VLongLC>());
            let n = all.len();
            let all = &all;
            s.acc = par_for((n * n) as u64, 256, |idx, acc| {
                let (l, r) = (&all[idx as usize / n], &all[idx as usize % n]);
                acc.evals += 1;
                acc.transitions += 3;
                let real = match catch(|| tlsh::compare(l, r)) {
                    Ok(x) => x,
                    Err(p) => {
                        acc.fail(idx, "default-type-cross-variant", format!("compare({l:?}, {r:?}) panicked: {p}"), json!({"kind": "strings", "variant": "Normal", "left": l, "right": r}));
                        return;
                    }
                };
                let expect = match (tlsh::Tlsh::from_str(l), tlsh::Tlsh::from_str(r)) {
                    (Ok(a), Ok(b)) => Ok(a.compare(&b)),
                    (Err(e), _) => Err((ParseErrorSide::Left, e)),
                    (Ok(_), Err(e)) => Err((ParseErrorSide::Right, e)),
                };
                let got = real.map_err(|e| (e.side(), e.inner_err()));
                if got != expect {
                    acc.fail(idx, "default-type-cross-variant", format!("compare({l:?}, {r:?}) = {got:?} but parse-then-compare with the default type = {expect:?}"), json!({"kind": "strings", "variant": "Normal", "left": l, "right": r}));
                    return;
                }
                if expect.is_err() {
                    acc.nontrivial += 1;
                }
                acc.outcomes.insert(match &expect { Ok(d) => *d as u64, Err((sd, e)) => 100_000 + (*sd == ParseErrorSide::Right) as u64 * 100 + map_parse_err(e) as u64 });
                if idx % 7919 == 0 {
                    acc.sample(idx, || json!({"left": l, "right": r}));
                }
            });
        },
    );
}

pub fn run(r: &mut Report, ctx: &Ctx) {
    quiet_panics();
    default_type_cross_variant(r, ctx);
    per_variant::<VShort>(r, ctx);
    per_variant::<VNormal>(r, ctx);
    per_variant::<VNormalLC>(r, ctx);
    per_variant::<VLong>(r, ctx);
    per_variant::<VLongLC>(r, ctx);
    crate::seq::section(r, ctx, "compare");
}

fn rs<V: Variant>(l: &str, r: &str) -> Result<(), String> {
    judge_strings::<V>(l, r).map(|_| ())
}

pub fn replay(case: &Value) -> Result<(), String> {
    let v = case["variant"].as_str().ok_or("variant")?;
    let l = case["left"].as_str().ok_or("left")?;
    let r = case["right"].as_str().ok_or("right")?;
    with_variant!(v, rs(l, r))
}

/// The same alphabet for the configuration-matrix transcripts (lenient builds).
pub fn string_alphabet_lenient<V: Variant>() -> Vec<String> {
    string_alphabet::<V>()
}
