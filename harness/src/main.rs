use std::path::PathBuf;
use vharness::report::Report;
use vharness::{Ctx, Tier};

fn usage() -> ! {
    eprintln!("usage: vcheck selftest | run <ID> [--tier quick|thorough] [--seed N] [--config NAME] [--only PREFIX] --out FILE | replay <ID> --file FILE");
    std::process::exit(2)
}

fn main() {
    let args: Vec<String> = std::env::args().collect();
    if args.len() < 2 {
        usage();
    }
    let get = |flag: &str| -> Option<String> {
        args.iter().position(|a| a == flag).and_then(|i| args.get(i + 1).cloned())
    };
    match args[1].as_str() {
        "selftest" => match vharness::refmodel::kat::self_test() {
            Ok(n) => {
                println!("reference self-test ok: {n} checks");
            }
            Err(e) => {
                eprintln!("MACHINERY ERROR: reference self-test failed: {e}");
                std::process::exit(2);
            }
        },
        "run" => {
            let id = args.get(2).cloned().unwrap_or_else(|| usage());
            let tier = match get("--tier").as_deref() {
                Some("thorough") => Tier::Thorough,
                _ => Tier::Quick,
            };
            let seed: u64 = get("--seed").and_then(|s| s.parse().ok()).unwrap_or(0);
            let config = get("--config").unwrap_or_else(|| "default".into());
            let out = get("--out").unwrap_or_else(|| usage());
            let scratch = PathBuf::from(get("--scratch").unwrap_or_else(|| "/verif/.cache/scratch".into()));
            if let Err(e) = vharness::refmodel::kat::self_test() {
                eprintln!("MACHINERY ERROR: reference self-test failed: {e}");
                std::process::exit(2);
            }
            vharness::checks::common::quiet_panics();
            let ctx = Ctx { tier, seed, only: get("--only"), scratch };
            let mut r = Report::new(
                &id,
                if tier == Tier::Quick { "quick" } else { "thorough" },
                seed,
                &config,
            );
            // A panic that escapes every per-case judge (e.g. while a check probes which backends exist) still comes
            // from executing the code under test on a fixed input: it is reported as a violation with the panic
            // message, never as an engine crash. On the unchanged tree no check panics.
            let known = match std::panic::catch_unwind(std::panic::AssertUnwindSafe(|| vharness::run_check(&id, &mut r, &ctx))) {
                Ok(k) => k,
                Err(p) => {
                    let msg = p.downcast_ref::<&str>().map(|s| s.to_string()).or_else(|| p.downcast_ref::<String>().cloned()).unwrap_or_else(|| "non-string panic".into());
                    if vharness::checks::common::last_panic_in_harness() || vharness::checks::common::last_panic_file().is_empty() {
                        eprintln!("MACHINERY ERROR: the harness itself panicked at {}: {msg}", vharness::checks::common::last_panic_file());
                        std::process::exit(2);
                    }
                    r.violations.push(vharness::report::Violation {
                        section: "panic-outside-cases".into(),
                        summary: format!("the code under test panicked while check {id} was preparing or running an enumeration (outside a single judged case): {msg}"),
                        replay: serde_json::json!({"kind": "panic-in-case", "key": "panic-outside-cases", "check": id}),
                    });
                    true
                }
            };
            if !known {
                eprintln!("MACHINERY ERROR: unknown check {id}");
                std::process::exit(2);
            }
            #[cfg(fast_tlsh_verif)]
            {
                // every enumeration in a hook build runs under the invariant monitor
                let (_, fails) = tlsh::verif::invariant_counts();
                if fails > 0 && !r.violations.iter().any(|v| v.summary.contains("invariant")) {
                    let mut buf = [0u8; 192];
                    let n = tlsh::verif::invariant_first_failure(&mut buf);
                    r.violations.push(vharness::report::Violation {
                        section: "invariant-monitor".into(),
                        summary: format!("{fails} invariant!() evaluation(s) were false while this enumeration ran; first: {} (handed to the optimiser as unreachable under feature 'unsafe')", String::from_utf8_lossy(&buf[..n])),
                        replay: serde_json::json!({"kind": "invariant-monitor", "key": "invariant-false", "check": id}),
                    });
                }
            }
            let js = serde_json::to_string_pretty(&r.to_json()).unwrap();
            std::fs::write(&out, js).expect("write --out");
            std::process::exit(if r.violations.is_empty() { 0 } else { 1 });
        }
        "child-reader" => {
            // runs one reader script in this (fresh) process; prints ok / err / panic:<msg>
            vharness::checks::common::quiet_panics();
            let variant = args.get(2).cloned().unwrap_or_else(|| usage());
            let js: serde_json::Value = serde_json::from_str(args.get(3).map(|s| s.as_str()).unwrap_or("")).expect("script json");
            let sc = vharness::readers::Script::from_json(&js).expect("script");
            println!("{}", vharness::checks::c17::run_script_dyn(&variant, &sc));
        }
        #[cfg(fast_tlsh_verif)]
        "sched-child" => {
            let ops: Vec<String> = args.get(2).map(|s| s.split(',').map(|x| x.to_string()).collect()).unwrap_or_default();
            let schedule: Vec<usize> = args.get(3).map(|s| s.split(',').filter(|x| !x.is_empty()).filter_map(|x| x.parse().ok()).collect()).unwrap_or_default();
            let trace = vharness::sched::child_main(&ops, &schedule);
            println!("{}", trace);
        }
        "alloc-child" => {
            let op = args.get(2).cloned().unwrap_or_else(|| usage());
            println!("{}", vharness::checks::c18::alloc_child(&op));
        }
        "miri-suite" => {
            // interpreter-monitored enumeration (see miri_suite.rs); also runs natively
            if args.iter().any(|a| a == "--noop") {
                return;
            }
            let depth: usize = get("--depth").and_then(|s| s.parse().ok()).unwrap_or(1);
            let (k, n) = get("--shard")
                .and_then(|s| s.split_once('/').map(|(a, b)| (a.parse().unwrap_or(0), b.parse().unwrap_or(1))))
                .unwrap_or((0, 1));
            let only: Option<usize> = get("--item").and_then(|s| s.parse().ok());
            let list = args.iter().any(|a| a == "--list");
            let kinds = get("--kinds");
            let res = vharness::miri_suite::run(depth, k, n, only, list, kinds.as_deref());
            let bad = !res["violations"].as_array().map(|a| a.is_empty()).unwrap_or(true);
            match get("--out") {
                Some(out) => std::fs::write(&out, serde_json::to_string_pretty(&res).unwrap()).expect("write --out"),
                None => println!("{}", res),
            }
            std::process::exit(if bad { 1 } else { 0 });
        }
        "transcript-dump" => {
            vharness::checks::common::quiet_panics();
            let section = args.get(2).cloned().unwrap_or_else(|| usage());
            let block: u64 = args.get(3).and_then(|s| s.parse().ok()).unwrap_or_else(|| usage());
            print!("{}", vharness::transcript::dump_block(&section, block));
        }
        "replay" => {
            let id = args.get(2).cloned().unwrap_or_else(|| usage());
            let file = get("--file").unwrap_or_else(|| usage());
            let text = std::fs::read_to_string(&file).expect("read replay file");
            let v: serde_json::Value = serde_json::from_str(&text).expect("parse replay file");
            let case = v.get("replay").cloned().unwrap_or(v);
            match vharness::replay(&id, &case) {
                Ok(()) => {
                    println!("replay: property {id} holds on this case");
                }
                Err(e) => {
                    println!("replay: property {id} VIOLATED on this case: {e}");
                    std::process::exit(1);
                }
            }
        }
        _ => usage(),
    }
}
